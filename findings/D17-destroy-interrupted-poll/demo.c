#include <reproc/reproc.h>
#include <signal.h>
#include <stdio.h>
#include <string.h>
#include <time.h>
#include <unistd.h>
static void on_alarm(int s) { (void) s; }
int main(void)
{
  struct sigaction sa; memset(&sa, 0, sizeof sa); sa.sa_handler = on_alarm; sigaction(SIGALRM, &sa, NULL);
  reproc_t *p = reproc_new();
  const char *argv[] = { "sleep", "3", NULL };
  reproc_options o; memset(&o, 0, sizeof o); /* default policy: wait until the deadline (none), then terminate */
  int r = reproc_start(p, argv, o);
  if (r < 0) return 2;
  int pid = reproc_pid(p);
  struct timespec a, b; clock_gettime(CLOCK_MONOTONIC, &a);
  alarm(1);
  reproc_destroy(p);
  clock_gettime(CLOCK_MONOTONIC, &b);
  long ms = (b.tv_sec - a.tv_sec) * 1000 + (b.tv_nsec - a.tv_nsec) / 1000000;
  int alive = kill(pid, 0) == 0;
  char path[64], st = '?'; snprintf(path, sizeof path, "/proc/%d/stat", pid);
  FILE *f = fopen(path, "r"); if (f) { int d; char comm[64]; if (fscanf(f, "%d %63s %c", &d, comm, &st) != 3) st = '?'; fclose(f); }
  printf("destroy returned after %ld ms; child %d exists=%d state=%c\n", ms, pid, alive, st);
  return (alive && st != 'Z') ? 1 : 0;
}
