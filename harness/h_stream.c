/* h_stream.c — C02 (stream fidelity, end-of-stream) and C17 (nonblocking never blocks; blocking waits
 * only for the child). DESIGN.md 3/C02, 3/C17. */
#include "hx.h"
#include "ident.h"

#include <errno.h>
#include <fcntl.h>
#include <poll.h>
#include <stdio.h>
#include <stdlib.h>
#include <string.h>
#include <sys/ioctl.h>
#include <sys/stat.h>
#include <unistd.h>

#define CAP 4096 /* pipe capacity used in most runs (one page) */

enum { EM_PIPE, EM_MERGED, EM_PARENT, NEM };
static const char *const em_names[] = { "pipe", "stdout", "parent" };

/* parent loop variants */
enum { PV_SEQ3, PV_SEQ4096, PV_SEQ70000, PV_ZERO_FIRST, PV_POLL, PV_NONBLOCK, PV_SEQ1, PV_DRAIN, PV_NB_READ_FIRST, PV_SEQ_EINTR, NPV };
static const char *const pv_names[] = { "seq-buf3", "seq-buf4096", "seq-buf70000", "zero-size-read-first", "poll-then-read", "nonblocking+poll", "seq-buf1", "drain", "nonblocking-read-then-poll", "seq-buf4096+EINTR" };

struct script_def {
  const char *fmt; /* %d replaced by the size under test */
  int uses_stdin;  /* 0 no, 1 parent writes then closes, 2 start-up input */
  int max_steps;
};
static const struct script_def scripts[] = {
  { "W1:%d X0", 0, 2 },
  { "W1:%d W2:5 W1:3 C1 W2:7 C2 X0", 0, 7 },
  { "W2:%d W1:2 X3", 0, 3 },
  { "W1:%d C1 X0", 0, 3 },
  { "X9", 0, 1 },
  { "W1:%d W1:5 X0", 0, 3 },
  { "RE X0", 1, 2 },
  { "R3 W1:3 RE X0", 1, 4 },
  { "E X0", 1, 2 },
  { "RE W1:2 X0", 2, 3 },
  { "C1 C2 W1:%d X0", 0, 4 }, /* the child writes to a closed descriptor: EBADF on its side, nothing for the parent */
};
#define NSCRIPTS ((int) (sizeof scripts / sizeof scripts[0]))
static const int sizes[] = { 0, 1, 7, CAP - 1, CAP, CAP + 1, 2 * CAP + 3 };
#define NSIZES 7
static const int in_sizes[] = { 0, 1, 7, CAP, CAP + 1 };
#define NINSIZES 5

enum { CL_BYTES_OK, CL_EPIPE_AT_END, CL_EPIPE_STICKY, CL_CHILD_WRITE_BLOCKED, CL_PARENT_READ_BLOCKED, CL_EPIPE_AFTER_PENDING, CL_MERGED_INTERLEAVED,
       CL_STDIN_OK, CL_STDIN_EOF, CL_ZERO_READ_OK, CL_HANG_DEADLOCK, CL_WOULDBLOCK, CL_PARTIAL_WRITE, CL_STATUS };
static const char *const c02_clauses[] = { "bytes-in-order", "epipe-exactly-at-end", "epipe-sticky-no-syscall", "child-write-was-blocked", "parent-read-was-blocked",
                                           "epipe-after-data-had-been-pending", "merged-stream-interleaved", "stdin-bytes-arrive", "stdin-eof-seen",
                                           "zero-size-read-harmless", "protocol-deadlock-hang", "wouldblock-seen", "partial-write-seen", "status-ok", NULL };

static char key[200];
static reproc_t *P;
static struct vk_child *CH;
static int em, merged;
static uint32_t got[3];       /* bytes returned so far per stream */
static int eof_seen[3];       /* EPIPE returned */
static int parent_closed[3];
static int cur_read_stream;   /* stream of the read in progress, for the hang hook */
static size_t fed;            /* bytes accepted by reproc_write */
static int fed_closed;
static const uint8_t *input_data;
static size_t input_size;
static int pfd[3];

/* expected byte at offset `off` of what the parent sees on stream s (1 or 2) */
static int echo_script;

static int expected_byte(int s, uint32_t off, uint8_t *out)
{
  if (echo_script && s == 1) {
    /* the child copies its stdin to stdout */
    if (off >= CH->echoed) return 0;
    *out = vc_pat(0, off);
    return 1;
  }
  if (!merged) {
    if (off >= CH->wrote[s]) return 0;
    *out = vc_pat(s, off);
    return 1;
  }
  /* merged into stdout: kernel write order as acknowledged by the helper */
  uint32_t pos = 0, cnt[3] = { 0, 0, 0 };
  for (int i = 0; i < CH->nworder; i++) {
    int fd = CH->worder[i].fd;
    uint32_t n = CH->worder[i].n;
    if (fd != 1 && fd != 2) continue;
    if (off < pos + n) {
      *out = vc_pat(fd, cnt[fd] + (off - pos));
      return 1;
    }
    pos += n;
    cnt[fd] += n;
  }
  return 0;
}

static uint32_t total_written(int s)
{
  if (echo_script && s == 1) return CH->echoed;
  if (!merged) return CH->wrote[s];
  return s == 1 ? CH->wrote[1] + CH->wrote[2] : 0;
}

/* has the child given up every descriptor it had on the pipe behind stream s? */
static int child_done_with(int s)
{
  if (CH->state != CH_RUNNING) return 1;
  if (!merged) return CH->closed_fd[s];
  return s == 1 ? (CH->closed_fd[1] && CH->closed_fd[2]) : 1;
}

static void after_read(int s, int size, int r, const uint8_t *buf, int api)
{
  const char *sn = s == 1 ? "stdout" : "stderr";
  if (vk_cfg.passthru) {
    /* free run: the helper's bookkeeping arrives only at the end; just count (the observation log is what gets compared) */
    if (r > 0) got[s] += (uint32_t) r;
    if (r == REPROC_EPIPE) eof_seen[s] = 1;
    return;
  }
  if (r > 0) {
    if (r > size) { vk_violation("C02", "read-count", key, "read on %s returned %d for a buffer of %d", sn, r, size); return; }
    for (int i = 0; i < r; i++) {
      uint8_t e;
      if (!expected_byte(s, got[s] + (uint32_t) i, &e)) {
        vk_violation("C02", "bytes-not-written", key, "%s: byte %u returned but the child has written only %u", sn, got[s] + (uint32_t) i, total_written(s));
        return;
      }
      if (buf[i] != e) {
        vk_violation("C02", "bytes-in-order", key, "%s: byte %u is %02x, the child wrote %02x there (lost, duplicated or reordered data)", sn, got[s] + (uint32_t) i, buf[i], e);
        return;
      }
    }
    got[s] += (uint32_t) r;
    vk_hit(CL_BYTES_OK);
    if (eof_seen[s]) vk_violation("C02", "data-after-epipe", key, "%s returned data after the closed-stream error", sn);
    return;
  }
  if (r == 0) {
    if (size == 0) { vk_hit(CL_ZERO_READ_OK); return; }
    vk_violation("C02", "read-zero", key, "read on %s returned 0 for a non-empty buffer", sn);
    return;
  }
  if (r == REPROC_EPIPE) {
    if (eof_seen[s] || parent_closed[s]) {
      if (vk_count_calls(api, 0)) vk_violation("C02", "epipe-sticky", key, "%s: a read after the closed-stream error made %d system call(s)", sn, vk_count_calls(api, 0));
      else vk_hit(CL_EPIPE_STICKY);
      return;
    }
    int is_pipe = s == 1 || (em == EM_PIPE);
    if (!is_pipe) { eof_seen[s] = 1; return; } /* not a pipe: closed-stream error at once, as documented */
    if (!child_done_with(s)) {
      vk_violation("C02", "epipe-early", key, "%s: closed-stream error although the child still holds the stream open (size %d read)", sn, size);
      eof_seen[s] = 1;
      return;
    }
    if (got[s] != total_written(s)) {
      vk_violation("C02", "epipe-before-all-data", key, "%s: closed-stream error after %u of %u bytes", sn, got[s], total_written(s));
      eof_seen[s] = 1;
      return;
    }
    eof_seen[s] = 1;
    vk_hit(CL_EPIPE_AT_END);
    if (total_written(s) > 0) vk_hit(CL_EPIPE_AFTER_PENDING);
    return;
  }
  if (r == REPROC_EWOULDBLOCK) { vk_hit(CL_WOULDBLOCK); return; }
  {
    struct vk_event *ie = api ? vk_last_event(api, C_READ) : NULL;
    if (ie && ie->injected > 0 && r == -ie->injected) return; /* an interrupted read: the caller simply tries again */
  }
  vk_violation("C02", "read-error", key, "read on %s returned %s", sn, hx_errname(r));
}

static int c02_sink(REPROC_STREAM stream, const uint8_t *buffer, size_t size, void *context)
{
  (void) context;
  if (stream != REPROC_STREAM_OUT && stream != REPROC_STREAM_ERR) return 0;
  int s = (int) stream;
  if (size == 0) { after_read(s, 1, REPROC_EPIPE, buffer, 0); return 0; }
  after_read(s, (int) size, (int) size, buffer, 0);
  return 0;
}

static int do_read(int s, int size)
{
  static uint8_t buf[70000];
  cur_read_stream = s;
  int r = hx_read(P, s == 1 ? REPROC_STREAM_OUT : REPROC_STREAM_ERR, buf, (size_t) size);
  cur_read_stream = 0;
  struct vk_event *e = vk_last_event(hx_last_api, C_READ);
  if (e && e->blocked) vk_hit(CL_PARENT_READ_BLOCKED);
  after_read(s, size, r, buf, hx_last_api);
  return r;
}

static void c02_hang(const char *where)
{
  vk_obs("hang(%s)", where);
  if (!strncmp(where, "livelock", 8)) { vk_violation("C17", "busy-wait", key, "a library call spins without blocking or returning (%s)", where); return; }
  /* a blocked read: legitimate only as a protocol deadlock (the child is itself stuck on another stream) */
  if (cur_read_stream && !strcmp(where, "read")) {
    int s = cur_read_stream;
    if (child_done_with(s)) {
      vk_violation("C02", "no-end-of-stream", key, "read on %s blocks forever although the child has closed it / has exited: the end of stream never arrives",
                   s == 1 ? "stdout" : "stderr");
      return;
    }
    /* the child may be stuck itself: on its stdin, which the parent has closed (or fed at start-up) - then it is waiting for an end-of-file that must come */
    if (CH && CH->state == CH_RUNNING && CH->pos < CH->nsteps && (CH->steps[CH->pos].op == 'R' || CH->steps[CH->pos].op == 'E') && (fed_closed || input_data)) {
      vk_violation("C02", "stdin-eof-not-seen", key, "the parent closed stdin but the child's read never sees end-of-file (somebody still holds the pipe's write end)");
      return;
    }
    vk_hit(CL_HANG_DEADLOCK);
    return;
  }
  if (!strcmp(where, "poll") && CH && CH->state == CH_RUNNING && CH->pos < CH->nsteps) {
    struct vk_step *st = &CH->steps[CH->pos];
    if ((st->op == 'R' || st->op == 'E') && (fed_closed || input_data)) {
      vk_violation("C02", "stdin-eof-not-seen", key, "the parent closed stdin but the child's read never sees end-of-file");
      return;
    }
    vk_hit(CL_HANG_DEADLOCK);
    return;
  }
  if (!strcmp(where, "write")) { vk_hit(CL_HANG_DEADLOCK); return; }
  vk_violation("C02", "unexpected-hang", key, "blocked forever in %s", where);
}

static void feed_stdin(int total, int nonblocking)
{
  /* the parent writes `total` pattern bytes in chunks, then closes */
  static uint8_t data[3 * CAP];
  for (int i = 0; i < total && i < (int) sizeof data; i++) data[i] = vc_pat(0, (uint32_t) i);
  size_t off = 0;
  int guard = 0;
  while (off < (size_t) total && guard++ < 64) {
    int w = hx_write(P, data + off, (size_t) total - off);
    struct vk_event *e = vk_last_event(hx_last_api, C_WRITE);
    if (e && e->blocked) vk_hit(CL_CHILD_WRITE_BLOCKED);
    if (w > 0) {
      if ((size_t) w < (size_t) total - off) vk_hit(CL_PARTIAL_WRITE);
      off += (size_t) w;
      continue;
    }
    if (w == REPROC_EWOULDBLOCK && nonblocking) {
      reproc_event_source src = { P, REPROC_EVENT_IN, 0 };
      int pr = hx_poll(&src, 1, REPROC_INFINITE);
      if (pr < 0) break;
      continue;
    }
    if (w == 0 && total - (int) off == 0) break;
    if (w < 0) { if (w != REPROC_EPIPE) vk_violation("C02", "write-error", key, "write returned %s", hx_errname(w)); break; }
  }
  if (total == 0) hx_write(P, data, 0);
  fed = off;
  hx_close(P, REPROC_STREAM_IN);
  fed_closed = 1;
}

static void check_stdin_at_end(void)
{
  const uint8_t *want;
  size_t wn;
  static uint8_t data[3 * CAP];
  if (input_data) { want = input_data; wn = input_size; }
  else {
    for (size_t i = 0; i < fed && i < sizeof data; i++) data[i] = vc_pat(0, (uint32_t) i);
    want = data;
    wn = fed;
  }
  /* what the child's read steps reported must be a prefix of, and after EOF equal to, what was accepted */
  if (CH->in_n > wn || memcmp(CH->in_data ? CH->in_data : (const uint8_t *) "", want, CH->in_n) != 0) {
    vk_violation("C02", "stdin-bytes", key, "the child read %zu byte(s) from stdin that differ from the %zu accepted by write/input", CH->in_n, wn);
    return;
  }
  if (CH->in_eof) {
    if (CH->in_n != wn) vk_violation("C02", "stdin-bytes-lost", key, "the child saw end-of-file after %zu of %zu bytes", CH->in_n, wn);
    else { vk_hit(CL_STDIN_OK); vk_hit(CL_STDIN_EOF); }
  }
}

static int c02_close_std; /* bit i: the parent's descriptor i is closed before the start */

struct c02cfg {
  int script, size, em, pv, insize;
  int fork; /* the child is the forked side of a fork-mode start (no exec: nothing closes descriptors for the library) */
};

static void c02_body(const struct c02cfg *c, int sched_bound)
{
  const struct script_def *sd = &scripts[c->script];
  char script[128];
  snprintf(script, sizeof script, sd->fmt, c->size, c->size);
  memset(&vk_cfg, 0, sizeof vk_cfg);
  vk_cfg.sched_on = 1;
  vk_cfg.sched_bound = sched_bound;
  vk_cfg.vlimit = 24;
  vk_cfg.hello_lite = 1;
  snprintf(key, sizeof key, "h_c02|script=%s|size=%d|stderr=%s|loop=%s|stdin=%d%s|std-closed=%d", sd->fmt, c->size, em_names[c->em], pv_names[c->pv], c->insize, c->fork ? "|fork-mode" : "", c02_close_std);
  hx_desc("%s", key);
  snprintf(key, sizeof key, "h_c02|stderr=%s|loop=%s%s", em_names[c->em], pv_names[c->pv], c->fork ? "|fork-mode" : "");
  hx_begin();
  for (int i = 0; i < 3; i++)
    if (c02_close_std & (1 << i)) close(i);
  vk_set_hang_hook(c02_hang);
  /* comparable with a free run: small payloads (one kernel write each) and loops whose results do not depend on how fast the child is */
  S->free_run_ok = c->size <= 7 && c->insize <= 7 && c->pv != PV_NONBLOCK && c->pv != PV_NB_READ_FIRST && c->pv != PV_SEQ_EINTR && !c->fork && !c02_close_std;
  vk_autonomous_gap_ms = 60; /* no timeouts in this harness: the gap only has to dwarf the parent's own call sequence */
  memset(got, 0, sizeof got);
  memset(eof_seen, 0, sizeof eof_seen);
  memset(parent_closed, 0, sizeof parent_closed);
  fed = 0;
  fed_closed = 0;
  input_data = NULL;
  em = c->em;
  merged = em == EM_MERGED;
  echo_script = sd->fmt[0] == 'E';
  reproc_options o;
  memset(&o, 0, sizeof o);
  o.redirect.err.type = em == EM_PIPE ? REPROC_REDIRECT_PIPE : em == EM_MERGED ? REPROC_REDIRECT_STDOUT : REPROC_REDIRECT_PARENT;
  int nonblocking = c->pv == PV_NONBLOCK || c->pv == PV_NB_READ_FIRST;
  if (c->pv == PV_SEQ_EINTR) {
    vk_cfg.faults_on = 1;
    vk_cfg.fault_bound = 1;
    vk_cfg.fault_calls = 1ull << C_READ;
  }
  o.nonblocking = nonblocking;
  static uint8_t inbuf[3 * CAP];
  if (sd->uses_stdin == 2) {
    for (int i = 0; i < c->insize; i++) inbuf[i] = (uint8_t) (i * 7 + 1);
    input_data = inbuf;
    input_size = (size_t) c->insize;
    o.input.data = inbuf;
    o.input.size = (size_t) c->insize;
  }
  vk_script(script);
  P = hx_new();
  vk_cfg.sched_on = 0;
  int r;
  if (c->fork) {
    vk_cfg.fork_mode = 1;
    vk_cfg.fork_child_first = 1;
    o.fork = true;
    r = hx_start(P, NULL, o);
    if (vk_side != 0) hx_forked_side(P, r);
    if (r == 0) r = -1;
  } else r = hx_start(P, hx_helper_argv(), o);
  vk_cfg.sched_on = 1;
  if (r < 0) vk_finish(OUT_INFRA, "start failed in the stream harness: %d", r);
  CH = &vk_children[0];
  /* the nonblocking option is about the parent's ends: a child whose own end of a pipe is nonblocking loses what it writes into a full pipe
   * (its write fails with EAGAIN instead of waiting for the parent) and sees EAGAIN on an empty stdin instead of waiting for data */
  for (int i = 0; i < CH->hello.nfd; i++) {
    const struct vc_fdinfo *f = &CH->hello.fds[i];
    if (f->fd <= 2 && S_ISFIFO(f->mode) && (f->flags & O_NONBLOCK))
      vk_violation("C02", "child-end-blocking", key, "the child's end of the %s pipe is in nonblocking mode (nonblocking option %s)", f->fd == 0 ? "stdin" : f->fd == 1 ? "stdout" : "stderr",
                   nonblocking ? "set: it concerns the parent's ends only" : "not set");
  }
  /* small pipes, so that "full" is reachable with small payloads */
  for (int i = 0; i < 3; i++) {
    pfd[i] = ident_parent_fd_for_stream(CH, i);
    if (pfd[i] >= 0) fcntl(pfd[i], F_SETPIPE_SZ, CAP);
  }
  if (sd->uses_stdin == 1) feed_stdin(c->insize, nonblocking);
  else if (sd->uses_stdin == 0) hx_close(P, REPROC_STREAM_IN);

  int bufsize = c->pv == PV_SEQ3 ? 3 : (c->pv == PV_SEQ4096 || c->pv == PV_SEQ_EINTR) ? 4096 : c->pv == PV_SEQ70000 ? 70000 : c->pv == PV_SEQ1 ? 1 : 64;
  int guard = 0;
  if (c->pv == PV_DRAIN) {
    reproc_sink sk = { c02_sink, NULL };
    hx_last_api = vk_api_begin("drain()");
    int dr = reproc_drain(P, sk, sk);
    vk_api_end(dr);
    vk_obs("drain=%s out=%u err=%u", hx_errname(dr), got[1], got[2]);
    if (dr != 0) vk_violation("C02", "drain-result", key, "drain returned %s", hx_errname(dr));
    for (int s = 1; s <= 2; s++) {
      int is_pipe = s == 1 || em == EM_PIPE;
      if (is_pipe && dr == 0 && (!eof_seen[s] || got[s] != total_written(s)))
        vk_violation("C02", "bytes-lost", key, "%s: drain returned 0 with %u of %u bytes delivered (end of stream %s)", s == 1 ? "stdout" : "stderr", got[s],
                     total_written(s), eof_seen[s] ? "reported" : "not reported");
    }
  } else if (c->pv == PV_NB_READ_FIRST) {
    /* a caller that tries to read first and polls only when told it would block */
    for (int s = 1; s <= 2; s++) {
      for (;;) {
        if (guard++ > 20000) { vk_violation("C02", "loop-does-not-end", key, "the read/poll loop did not terminate"); break; }
        int n = do_read(s, bufsize);
        if (n == REPROC_EWOULDBLOCK) {
          reproc_event_source src = { P, s == 1 ? REPROC_EVENT_OUT : REPROC_EVENT_ERR, 0 };
          int pr = hx_poll(&src, 1, REPROC_INFINITE);
          if (pr < 0) break;
          continue;
        }
        if (n < 0) break;
      }
    }
  } else if (c->pv == PV_POLL || c->pv == PV_NONBLOCK) {
    for (;;) {
      if (guard++ > 20000) { vk_violation("C02", "loop-does-not-end", key, "the poll/read loop did not terminate"); break; }
      reproc_event_source src = { P, REPROC_EVENT_OUT | REPROC_EVENT_ERR, 0 };
      int pr = hx_poll(&src, 1, REPROC_INFINITE);
      if (pr == REPROC_EPIPE) break;
      if (pr < 0) { vk_violation("C02", "poll-error", key, "poll returned %s", hx_errname(pr)); break; }
      if (src.events & REPROC_EVENT_OUT) do_read(1, bufsize);
      if (src.events & REPROC_EVENT_ERR) do_read(2, bufsize);
      if (!(src.events & (REPROC_EVENT_OUT | REPROC_EVENT_ERR))) break;
    }
  } else {
    for (int s = 1; s <= 2; s++) {
      if (c->pv == PV_ZERO_FIRST) {
        int z = do_read(s, 0);
        if (z < 0 && z != REPROC_EPIPE) vk_violation("C02", "zero-size-read", key, "a zero-size read returned %s", hx_errname(z));
      }
      vk_faults_armed = c->pv == PV_SEQ_EINTR;
      for (;;) {
        if (guard++ > 20000) { vk_violation("C02", "loop-does-not-end", key, "the read loop did not terminate"); break; }
        int n = do_read(s, bufsize);
        if (n == -EINTR && c->pv == PV_SEQ_EINTR) continue;
        if (n < 0) break;
      }
      vk_faults_armed = 0;
      /* sticky afterwards */
      do_read(s, bufsize);
    }
  }
  int st = hx_wait(P, REPROC_INFINITE);
  if (st >= 0 && st == CH->expect_status) vk_hit(CL_STATUS);
  else vk_violation("C01", "status-exact", key, "wait returned %s, the child ended with %d", hx_errname(st), CH->expect_status);
  /* everything the child wrote on a piped stream has been delivered */
  for (int s = 1; s <= 2; s++) {
    int is_pipe = s == 1 || em == EM_PIPE;
    if (is_pipe && eof_seen[s] && got[s] != total_written(s))
      vk_violation("C02", "bytes-lost", key, "%s: %u of %u bytes were delivered before the closed-stream error", s == 1 ? "stdout" : "stderr", got[s], total_written(s));
  }
  if (merged && CH->nworder > 2) vk_hit(CL_MERGED_INTERLEAVED);
  if (sd->uses_stdin) check_stdin_at_end();
  vk_cfg.sched_on = 0;
  hx_destroy(P);
}

/* configuration table: built once */
static struct c02cfg *cfgs[2];
static long ncfgs[2];

static void build(void)
{
  static int done;
  if (done) return;
  done = 1;
  for (int tier = 0; tier < 2; tier++) {
    static struct c02cfg store[2][40000];
    long n = 0;
    for (int sc = 0; sc < NSCRIPTS; sc++) {
      const struct script_def *sd = &scripts[sc];
      int has_size = strstr(sd->fmt, "%d") != NULL;
      for (int si = 0; si < (has_size ? NSIZES : 1); si++)
        for (int e = 0; e < NEM; e++)
          for (int pv = 0; pv < NPV; pv++)
            for (int is = 0; is < (sd->uses_stdin ? NINSIZES : 1); is++) {
              int size = has_size ? sizes[si] : 0;
              if (pv == PV_SEQ1 && size > 7) continue;   /* byte-wise reads only of small payloads */
              if (pv == PV_SEQ3 && size > CAP + 1 && !tier) continue;
              if (!tier && e == EM_PARENT && sc != 1 && sc != 2) continue;
              if (!tier && sd->uses_stdin && (pv == PV_SEQ70000 || pv == PV_SEQ1 || pv == PV_ZERO_FIRST)) continue;
              struct c02cfg c = { sc, size, e, pv, sd->uses_stdin ? in_sizes[is] : 0, 0 };
              store[tier][n++] = c;
            }
    }
    /* fork mode: the scripts that read stdin to its end, and one that only writes */
    for (int sc = 0; sc < NSCRIPTS; sc++) {
      const struct script_def *sd = &scripts[sc];
      if (!(sd->uses_stdin || sc == 1)) continue;
      for (int e = 0; e < 2; e++)
        for (int pvi = 0; pvi < 3; pvi++)
          for (int is = 0; is < (sd->uses_stdin ? NINSIZES : 1); is++) {
            static const int pvs[3] = { PV_SEQ4096, PV_POLL, PV_DRAIN };
            if (!tier && (is == 1 || is == 3)) continue;
            struct c02cfg c = { sc, 7, e, pvs[pvi], sd->uses_stdin ? in_sizes[is] : 0, 1 };
            store[tier][n++] = c;
          }
    }
    cfgs[tier] = store[tier];
    ncfgs[tier] = n;
  }
}

#define NAFTER 12
#define NSTD2 6 /* the stdin scripts with two or three standard descriptors of the parent closed: the pipe ends the library makes land on 0-2 */
static long c02_n(int tier)
{
  build();
  return ncfgs[tier] + 3 + NAFTER + NSTD2; /* + the 64 KiB set and one 2 MiB transfer + writes after the reader has gone */
}

static void c02_big(int which);
static void c02_after_epipe(int which);

static void c02_run(int tier, long cfg)
{
  build();
  if (cfg >= ncfgs[tier] + 3 + NAFTER) {
    int k = (int) (cfg - ncfgs[tier] - 3 - NAFTER);
    static const int masks[3] = { 3, 5, 7 };
    struct c02cfg c = { (k & 1) ? 9 /* start-up input */ : 6 /* write, close */, 0, EM_PIPE, PV_SEQ4096, 7, 0 };
    c02_close_std = masks[k / 2];
    c02_body(&c, 1);
    c02_close_std = 0;
    return;
  }
  if (cfg >= ncfgs[tier] + 3) { c02_after_epipe((int) (cfg - ncfgs[tier] - 3)); return; }
  if (cfg >= ncfgs[tier]) { c02_big((int) (cfg - ncfgs[tier])); return; }
  const struct c02cfg *c = &cfgs[tier][cfg];
  /* all interleavings for short scripts and few parent calls, bounded otherwise */
  int small = c->size <= 7 && c->insize <= 7;
  int bulk_reader = c->pv == PV_SEQ4096 || c->pv == PV_POLL || c->pv == PV_NONBLOCK || c->pv == PV_SEQ70000 || c->pv == PV_NB_READ_FIRST || c->pv == PV_SEQ_EINTR;
  int bound = tier ? (small ? (bulk_reader ? 4 : 3) : 2) : (small ? (bulk_reader ? 3 : 2) : 1);
  /* many tiny reads of a large payload: thousands of scheduling points per execution; keep those to the default schedule (quick) / one deviation */
  int bufsize = c->pv == PV_SEQ3 ? 3 : c->pv == PV_SEQ1 ? 1 : 64;
  if ((c->size + c->insize) / bufsize > 150) bound = tier ? 1 : 0;
  c02_body(c, bound);
}

/* default-capacity pipes: 65535/65536/65537 bytes and one 2 MiB transfer, default schedule plus one deviation */
static void c02_big(int which)
{
  static const int big[] = { 65535, 65537, 2 * 1024 * 1024 };
  int size = big[which];
  char script[64];
  snprintf(script, sizeof script, "W1:%d X0", size);
  memset(&vk_cfg, 0, sizeof vk_cfg);
  vk_cfg.sched_on = 1;
  vk_cfg.sched_bound = which == 2 ? 0 : 1;
  vk_cfg.vlimit = 24;
  vk_cfg.hello_lite = 1;
  snprintf(key, sizeof key, "h_c02|big|size=%d", size);
  hx_desc("%s", key);
  hx_begin();
  vk_set_hang_hook(c02_hang);
  memset(got, 0, sizeof got);
  memset(eof_seen, 0, sizeof eof_seen);
  memset(parent_closed, 0, sizeof parent_closed);
  em = EM_PARENT;
  merged = 0;
  echo_script = 0;
  reproc_options o;
  memset(&o, 0, sizeof o);
  vk_script(script);
  P = hx_new();
  vk_cfg.sched_on = 0;
  int r = hx_start(P, hx_helper_argv(), o);
  vk_cfg.sched_on = which != 2;
  if (r < 0) vk_finish(OUT_INFRA, "start failed: %d", r);
  CH = &vk_children[0];
  hx_close(P, REPROC_STREAM_IN);
  int guard = 0;
  for (;;) {
    if (guard++ > 5000) break;
    int n = do_read(1, 4096);
    if (n < 0) break;
  }
  int st = hx_wait(P, REPROC_INFINITE);
  if (st != 0) vk_violation("C01", "status-exact", key, "wait returned %s", hx_errname(st));
  if (got[1] != (uint32_t) size) vk_violation("C02", "bytes-lost", key, "%u of %d bytes delivered", got[1], size);
  hx_destroy(P);
}

/* the reader of stdin goes away (closes it / exits); a write is refused with the closed-stream error; then the caller opens a file of its own,
 * which gets the lowest free descriptor number, and writes again: nothing may be accepted any more (it could not reach the child), nothing may
 * land in the caller's file, and closing the stream must not close it */
static void c02_after_epipe(int which)
{
  int child_exits = which & 1, nonblocking = (which >> 1) & 1, outk = which >> 2; /* stdout: pipe / the parent's / a handle of the caller */
  memset(&vk_cfg, 0, sizeof vk_cfg);
  vk_cfg.sched_on = 1;
  vk_cfg.sched_bound = 1;
  vk_cfg.vlimit = 24;
  vk_cfg.hello_lite = 1;
  snprintf(key, sizeof key, "h_c02|write-after-reader-gone|%s|%s|stdout=%s", child_exits ? "child-exited" : "child-closed-stdin", nonblocking ? "nonblocking" : "blocking",
           outk == 0 ? "pipe" : outk == 1 ? "parent" : "handle");
  hx_desc("%s", key);
  snprintf(key, sizeof key, "h_c02|write-after-reader-gone");
  hx_begin();
  vk_set_hang_hook(c02_hang);
  memset(got, 0, sizeof got);
  memset(eof_seen, 0, sizeof eof_seen);
  memset(parent_closed, 0, sizeof parent_closed);
  em = EM_PARENT;
  merged = 0;
  echo_script = 0;
  reproc_options o;
  memset(&o, 0, sizeof o);
  o.nonblocking = nonblocking;
  int outh = -1;
  if (outk == 1) o.redirect.out.type = REPROC_REDIRECT_PARENT;
  if (outk == 2) { outh = open("callers-stdout-target", O_WRONLY | O_CREAT | O_TRUNC, 0644); o.redirect.out.handle = outh; }
  vk_script(child_exits ? "X4 ;" : "C0 ; X4");
  P = hx_new();
  vk_cfg.sched_on = 0;
  int r = hx_start(P, hx_helper_argv(), o);
  vk_cfg.sched_on = 1;
  if (r < 0) vk_finish(OUT_INFRA, "start failed: %d", r);
  CH = &vk_children[0];
  int w1 = hx_write(P, (const uint8_t *) "ab", 2);
  if (w1 != REPROC_EPIPE) vk_violation("C02", "write-to-gone-reader", key, "write returned %s although nobody can read the child's stdin any more", hx_errname(w1));
  int mine = open("callers-own-file", O_RDWR | O_CREAT | O_TRUNC, 0644);
  if (mine < 0) vk_finish(OUT_INFRA, "open: %s", strerror(errno));
  struct stat st0;
  fstat(mine, &st0);
  int w2 = hx_write(P, (const uint8_t *) "cd", 2);
  if (w2 >= 0) vk_violation("C02", "write-accepted-after-closed-stream", key, "after the closed-stream error a write of 2 bytes returned %d: accepted bytes that cannot reach the child", w2);
  else if (w2 != REPROC_EPIPE) vk_violation("C02", "closed-stream-error-sticky", key, "after the closed-stream error the next write returned %s", hx_errname(w2));
  hx_close(P, REPROC_STREAM_IN);
  struct stat st1;
  if (fstat(mine, &st1) < 0 || st1.st_ino != st0.st_ino) vk_violation("C05", "no-foreign-close", key, "closing stdin closed the caller's own descriptor %d", mine);
  else if (st1.st_size != 0) vk_violation("C02", "bytes-to-foreign-descriptor", key, "%lld byte(s) written through the handle landed in the caller's own file", (long long) st1.st_size);
  else vk_hit(CL_EPIPE_STICKY);
  if (vk_foreign_closes || vk_double_closes) vk_violation("C05", "no-foreign-close", key, "%d foreign and %d double close(s)", vk_foreign_closes, vk_double_closes);
  int stt = hx_wait(P, REPROC_INFINITE);
  if (stt != 4) vk_violation("C01", "status-exact", key, "wait returned %s", hx_errname(stt));
  vk_cfg.sched_on = 0;
  hx_destroy(P);
  close(mine);
  if (outh >= 0) close(outh);
}

/* ================================================================= C17 */

enum { CL17_NB_READ_EMPTY, CL17_NB_READ_DATA, CL17_NB_READ_CLOSED, CL17_NB_WRITE_ROOM, CL17_NB_WRITE_FULL, CL17_NB_WRITE_PARTIAL, CL17_NB_WRITE_CLOSED,
       CL17_B_READ_WAITED, CL17_B_WRITE_WAITED, CL17_INPUT_OK, CL17_INPUT_REFUSED, CL17_B_NOWAIT };
static const char *const c17_clauses[] = { "nonblocking-read-empty-wouldblock", "nonblocking-read-data", "nonblocking-read-closed-epipe", "nonblocking-write-room",
                                           "nonblocking-write-full-wouldblock", "nonblocking-write-partial", "nonblocking-write-closed-epipe",
                                           "blocking-read-waited-for-child", "blocking-write-waited-for-child", "input-delivered", "input-refused-cleanly",
                                           "blocking-call-did-not-need-to-wait", NULL };

enum { PS_EMPTY, PS_PARTLY, PS_FULL, PS_FAR_CLOSED, NPS };
static const char *const ps_names[] = { "empty", "partly-filled", "full", "far-side-closed" };
enum { OPK_READ_OUT, OPK_READ_ERR, OPK_WRITE1, OPK_WRITE_CAP, OPK_WRITE_3CAP, OPK_WRITE0, OPK_WRITE_CAPM1, OPK_WRITE_CAPP1, OPK_READ_OUT_BIG, NOPK };
static const char *const opk_names[] = { "read-out", "read-err", "write-1", "write-cap", "write-3cap", "write-0", "write-cap-1", "write-cap+1", "read-out-8192" };
enum { CK_IDLE, CK_SLOW, NCK };

static char key17[200];
static int nb17;
static int c17_in_api;
static int c17_close_std;   /* bit i: the parent's descriptor i is closed before the start (so that pipe ends of the library land on 0-2) */
static int c17_far_closed;  /* the far side of the pipe under test has been closed: nothing is left to wait for */

static void c17_hang(const char *where)
{
  vk_obs("hang(%s)", where);
  if (!strncmp(where, "livelock", 8)) { vk_violation("C17", "busy-wait", key17, "a library call spins without blocking or returning (%s)", where); return; }
  if (nb17 && c17_in_api) vk_violation("C17", "nonblocking-blocks", key17, "a call in nonblocking mode blocked in %s", where);
  /* in blocking mode an idle child legitimately blocks the caller forever - unless the far side of the pipe is gone: then there is nothing to wait for */
  else if (c17_in_api && c17_far_closed)
    vk_violation("C17", "blocks-although-far-side-closed", key17, "a blocking call waits forever in %s although the child has closed its end of the pipe (somebody else still holds it open)", where);
}

static int blocked_intervals(int api, int *woke_child, int *by_timeout)
{
  int n = 0;
  *woke_child = 0;
  *by_timeout = 0;
  for (int i = 0; i < S->nevents; i++) {
    struct vk_event *e = &S->ev[i];
    if (e->api != api || e->side != 0) continue;
    if (e->blocked) { n += e->blocked; if (e->woke_child) *woke_child = 1; else *by_timeout = 1; }
  }
  return n;
}

static void c17_stream_cfg(int nb, int ps, int opk, int ck)
{
  memset(&vk_cfg, 0, sizeof vk_cfg);
  vk_cfg.sched_on = 1;
  vk_cfg.sched_bound = 1;
  vk_cfg.vlimit = 24;
  vk_cfg.hello_lite = 1;
  nb17 = nb;
  c17_far_closed = ps == PS_FAR_CLOSED;
  snprintf(key17, sizeof key17, "h_c17|%s|pipe=%s|op=%s|child=%s|std-closed=%d", nb ? "nonblocking" : "blocking", ps_names[ps], opk_names[opk], ck ? "slow" : "idle", c17_close_std);
  hx_desc("%s", key17);
  snprintf(key17, sizeof key17, "h_c17|%s|op=%s%s", nb ? "nonblocking" : "blocking", opk_names[opk], c17_close_std ? "|parent-std-closed" : "");
  hx_begin();
  for (int i = 0; i < 3; i++)
    if (c17_close_std & (1 << i)) close(i);
  vk_set_hang_hook(c17_hang);
  int is_read = opk == OPK_READ_OUT || opk == OPK_READ_ERR || opk == OPK_READ_OUT_BIG;
  int s = opk == OPK_READ_ERR ? 2 : 1;
  int rsize = opk == OPK_READ_OUT_BIG ? 8192 : 16;
  /* bring the pipe under test into the state; a slow child has one more step that makes progress possible */
  char script[96] = "";
  if (is_read) {
    if (ps == PS_PARTLY) snprintf(script, sizeof script, "W%d:5 ; ", s);
    else if (ps == PS_FULL) snprintf(script, sizeof script, "W%d:%d ; ", s, CAP);
    else if (ps == PS_FAR_CLOSED) snprintf(script, sizeof script, "C%d ; ", s);
    else snprintf(script, sizeof script, "; ");
    if (ck == CK_SLOW) snprintf(script + strlen(script), sizeof script - strlen(script), "W%d:3", s);
  } else {
    if (ps == PS_FAR_CLOSED) snprintf(script, sizeof script, "C0 ; ");
    else snprintf(script, sizeof script, "; ");
    if (ck == CK_SLOW) strcat(script, "R100000");
  }
  reproc_options o;
  memset(&o, 0, sizeof o);
  o.nonblocking = nb;
  o.redirect.err.type = REPROC_REDIRECT_PIPE;
  vk_script(script);
  reproc_t *p = hx_new();
  vk_cfg.sched_on = 0;
  int r = hx_start(p, hx_helper_argv(), o);
  if (r < 0) vk_finish(OUT_INFRA, "start failed: %d", r);
  struct vk_child *c = &vk_children[0];
  int fd0 = ident_parent_fd_for_stream(c, 0);
  for (int i = 0; i < 3; i++) {
    int f = ident_parent_fd_for_stream(c, i);
    if (f >= 0) fcntl(f, F_SETPIPE_SZ, CAP);
  }
  static uint8_t buf[4 * CAP + 8192];
  if (!is_read && (ps == PS_PARTLY || ps == PS_FULL)) {
    /* fill the stdin pipe from the harness side of the library: raw write on the parent's descriptor */
    int fl = fcntl(fd0, F_GETFL);
    fcntl(fd0, F_SETFL, fl | O_NONBLOCK);
    ssize_t w = write(fd0, buf, ps == PS_FULL ? CAP : 5);
    (void) w;
    fcntl(fd0, F_SETFL, fl);
  }
  vk_cfg.sched_on = 1;
  c17_in_api = 1;
  int res, api, size = 0;
  if (is_read) {
    res = hx_read(p, s == 1 ? REPROC_STREAM_OUT : REPROC_STREAM_ERR, buf, (size_t) rsize);
  } else {
    size = opk == OPK_WRITE1 ? 1 : opk == OPK_WRITE_CAP ? CAP : opk == OPK_WRITE0 ? 0 : opk == OPK_WRITE_CAPM1 ? CAP - 1 : opk == OPK_WRITE_CAPP1 ? CAP + 1 : 3 * CAP;
    res = hx_write(p, buf, (size_t) size);
  }
  api = hx_last_api;
  c17_in_api = 0;
  int woke = 0, by_timeout = 0;
  int nblocked = blocked_intervals(api, &woke, &by_timeout);
  if (nb) {
    if (nblocked) vk_violation("C17", "nonblocking-blocks", key17, "%s in nonblocking mode was blocked %d time(s)", opk_names[opk], nblocked);
    if (is_read) {
      if (res > 0) vk_hit(CL17_NB_READ_DATA);
      else if (res == REPROC_EWOULDBLOCK) {
        /* truth: nothing to read and the far side still open */
        int avail = 0;
        int fd = ident_parent_fd_for_stream(c, s);
        if (fd >= 0) ioctl(fd, FIONREAD, &avail);
        if (avail > 0) vk_violation("C17", "wouldblock-consistent", key17, "read answered would-block with %d byte(s) pending", avail);
        else vk_hit(CL17_NB_READ_EMPTY);
        /* a would-block answer must leave the stream usable: whatever the child writes next has to be readable */
        vk_cfg.sched_on = 0;
        int wrote_before = (int) c->wrote[s];
        if (vk_child_enabled(c)) vk_child_step(c);
        int res2 = hx_read(p, s == 1 ? REPROC_STREAM_OUT : REPROC_STREAM_ERR, buf, 16);
        if ((int) c->wrote[s] > wrote_before) {
          if (res2 <= 0) vk_violation("C17", "stream-usable-after-wouldblock", key17, "after a would-block answer the child wrote %d byte(s) but the next read returned %s", (int) c->wrote[s] - wrote_before, hx_errname(res2));
        } else if (res2 != REPROC_EWOULDBLOCK) {
          vk_violation("C17", "stream-usable-after-wouldblock", key17, "a second read on an empty, open stream returned %s", hx_errname(res2));
        }
        vk_cfg.sched_on = 1;
      } else if (res == REPROC_EPIPE) {
        if (!c->closed_fd[s]) vk_violation("C17", "epipe-consistent", key17, "read answered closed-pipe although the child holds the stream open");
        else vk_hit(CL17_NB_READ_CLOSED);
      } else vk_violation("C17", "nonblocking-result", key17, "read returned %s", hx_errname(res));
    } else {
      if (res == size && size == 0) vk_hit(CL17_NB_WRITE_ROOM);
      else if (res == size) vk_hit(CL17_NB_WRITE_ROOM);
      else if (res > 0 && res < size) vk_hit(CL17_NB_WRITE_PARTIAL);
      else if (res == REPROC_EWOULDBLOCK) vk_hit(CL17_NB_WRITE_FULL);
      else if (res == REPROC_EPIPE) {
        if (!c->closed_fd[0]) vk_violation("C17", "epipe-consistent", key17, "write answered closed-pipe although the child holds stdin open");
        else vk_hit(CL17_NB_WRITE_CLOSED);
      } else vk_violation("C17", "nonblocking-result", key17, "write of %d returned %s", size, hx_errname(res));
    }
  } else {
    /* blocking: every blocked interval ends through a step of the child, never by time */
    if (by_timeout) vk_violation("C17", "blocking-wakes-by-child-only", key17, "a blocking %s was ended by something other than the child", opk_names[opk]);
    if (nblocked && woke) vk_hit(is_read ? CL17_B_READ_WAITED : CL17_B_WRITE_WAITED);
    if (!nblocked) vk_hit(CL17_B_NOWAIT);
    if (is_read && res == REPROC_EWOULDBLOCK) vk_violation("C17", "blocking-result", key17, "a blocking read returned would-block");
    if (!is_read && res >= 0 && res != size && res != REPROC_EPIPE) vk_violation("C17", "blocking-write-complete", key17, "a blocking write of %d returned %d", size, res);
  }
  /* the far side closed and nothing pending: the closed-pipe error, at once, in either mode */
  if (ps == PS_FAR_CLOSED && ck == CK_IDLE && !(!is_read && size == 0) && res != REPROC_EPIPE)
    vk_violation("C17", "far-side-closed-epipe", key17, "the child has closed its end of the pipe, yet %s returned %s instead of the closed-pipe error", opk_names[opk], hx_errname(res));
  vk_cfg.sched_on = 0;
  reproc_stop_actions k = { { REPROC_STOP_KILL, REPROC_INFINITE }, { REPROC_STOP_NOOP, 0 }, { REPROC_STOP_NOOP, 0 } };
  reproc_stop(p, k);
  hx_destroy(p);
}

static const int input_sizes[] = { 0, 1, CAP - 1, CAP, 65536, 65537, 4 * 65536 };
#define NINPUT 7

static void c17_input_cfg(int nb, int si)
{
  memset(&vk_cfg, 0, sizeof vk_cfg);
  vk_cfg.sched_on = 1;
  vk_cfg.sched_bound = 1;
  vk_cfg.vlimit = 24;
  vk_cfg.hello_lite = 1;
  nb17 = 1; /* start with input must never block, whatever the mode */
  int size = input_sizes[si];
  snprintf(key17, sizeof key17, "h_c17|input|%s|size=%d", nb ? "nonblocking" : "blocking", size);
  hx_desc("%s", key17);
  snprintf(key17, sizeof key17, "h_c17|input|%s", nb ? "nonblocking" : "blocking");
  hx_begin();
  vk_set_hang_hook(c17_hang);
  static uint8_t data[4 * 65536];
  for (int i = 0; i < size; i++) data[i] = (uint8_t) (i * 13 + 5);
  reproc_options o;
  memset(&o, 0, sizeof o);
  o.nonblocking = nb;
  o.input.data = data;
  o.input.size = (size_t) size;
  o.redirect.err.type = REPROC_REDIRECT_PIPE;
  vk_script("RE W1:3 W2:2 X0");
  reproc_t *p = hx_new();
  c17_in_api = 1;
  int r = hx_start(p, hx_helper_argv(), o);
  int api = hx_last_api;
  c17_in_api = 0;
  int woke, bt;
  int nblocked = blocked_intervals(api, &woke, &bt);
  /* the read of the error pipe waits for the child's exec: that is start waiting for start, not for input */
  int input_blocks = 0;
  for (int i = 0; i < S->nevents; i++)
    if (S->ev[i].api == api && S->ev[i].side == 0 && S->ev[i].call == C_WRITE && S->ev[i].blocked) input_blocks++;
  (void) nblocked;
  if (input_blocks) vk_violation("C17", "input-never-blocks", key17, "start blocked while writing %d bytes of start-up input", size);
  if (r < 0) {
    if (vk_nchildren) vk_violation("C04", "failed-start-leaves-child", key17, "start failed with %s after forking", hx_errname(r));
    if (size <= 65536) vk_violation("C17", "input-fits-but-refused", key17, "start refused %d bytes of input with %s", size, hx_errname(r));
    else vk_hit(CL17_INPUT_REFUSED);
    hx_destroy(p);
    return;
  }
  struct vk_child *c = &vk_children[0];
  /* start-up input says nothing about the mode of the output streams: without the option a read waits for the child, with it it never does */
  for (int sidx = 1; sidx <= 2; sidx++) {
    uint8_t b[8];
    nb17 = nb;
    c17_in_api = 1;
    int rr = hx_read(p, sidx == 1 ? REPROC_STREAM_OUT : REPROC_STREAM_ERR, b, 4);
    c17_in_api = 0;
    int w2, bt2;
    int nbl = blocked_intervals(hx_last_api, &w2, &bt2);
    if (!nb) {
      if (rr == REPROC_EWOULDBLOCK) vk_violation("C17", "blocking-read-wouldblock", key17, "a read on %s in blocking mode returned the would-block error after a start with input", sidx == 1 ? "stdout" : "stderr");
      else if (rr > 0 && nbl && w2) vk_hit(CL17_B_READ_WAITED);
    } else if (nbl) vk_violation("C17", "nonblocking-blocks", key17, "a nonblocking read blocked after a start with input");
  }
  nb17 = 1;
  int st = hx_wait(p, REPROC_INFINITE);
  if (st != 0 || !c->in_eof || c->in_n != (size_t) size || memcmp(c->in_data ? c->in_data : (uint8_t *) "", data, (size_t) size))
    vk_violation("C17", "input-delivered-completely", key17, "start accepted %d bytes of input but the child read %zu (eof=%d, status %s)", size, c->in_n, c->in_eof, hx_errname(st));
  else vk_hit(CL17_INPUT_OK);
  hx_destroy(p);
}

#define NSTDC 12
static long c17_n(int tier) { (void) tier; return 2L * NPS * NOPK * NCK + 2L * NINPUT + NSTDC; }
static void c17_run(int tier, long cfg)
{
  (void) tier;
  long ns = 2L * NPS * NOPK * NCK;
  if (cfg < ns) {
    int nb = (int) (cfg % 2);
    cfg /= 2;
    int ps = (int) (cfg % NPS);
    cfg /= NPS;
    int opk = (int) (cfg % NOPK);
    cfg /= NOPK;
    c17_stream_cfg(nb, ps, opk, (int) cfg);
  } else if (cfg - ns < 2L * NINPUT) {
    cfg -= ns;
    c17_input_cfg((int) (cfg % 2), (int) (cfg / 2));
  } else {
    /* the far side closed, with standard descriptors of the parent closed beforehand: a pipe end of the library that landed on 0-2 and was moved
     * away must not stay behind (it would keep the pipe open from the parent's own side) */
    long k = cfg - ns - 2L * NINPUT;
    static const int ops[3] = { OPK_WRITE1, OPK_READ_OUT, OPK_READ_ERR };
    int nb = (int) (k % 2), op = ops[(k / 2) % 3], mask = (k / 6) ? 6 : 1;
    c17_close_std = mask;
    c17_stream_cfg(nb, PS_FAR_CLOSED, op, CK_IDLE);
    c17_close_std = 0;
  }
}

const struct hx_harness h_c02 = { "C02", "h_c02", c02_n, c02_run, c02_clauses, NULL, 0, { 0, 0 }, 0, 3 };
const struct hx_harness h_c17 = { "C17", "h_c17", c17_n, c17_run, c17_clauses, NULL };
