/* hx: explorer worker + common harness helpers. One binary, one harness per property. */
#ifndef HX_H
#define HX_H
#include "../vk/vk.h"

#include <reproc/drain.h>
#include <reproc/reproc.h>
#include <reproc/run.h>

#ifdef __cplusplus
extern "C" {
#endif

enum { TIER_QUICK = 0, TIER_THOROUGH = 1 };

struct hx_harness {
  const char *prop;
  const char *name;
  long (*nconfigs)(int tier);
  /* runs inside the per-execution process; sets vk_cfg + S->cfgdesc, calls hx_begin(), drives the API,
   * evaluates the oracles and returns (hx finishes with OUT_DONE). */
  void (*run)(int tier, long cfg);
  const char *const *clause_names; /* for clause_hits in the evidence, NULL-terminated, may be NULL */
  /* optional: called by the worker (not the execution process) once per shard before exploring */
  void (*worker_init)(int tier);
  /* breadth-first search over operation histories with state deduplication (instead of DFS over choice sequences):
   * number of operations and depth per tier; the harness takes its operations from vk_choose(K_OP, ...) while inside the prefix */
  int bfs_nops;
  int bfs_depth[2];
  /* few, heavy configurations: every worker explores every configuration but only the subtrees whose first deviation
   * sits at a choice point i with i % nshards == shard (the default execution is accounted by shard 0) */
  int split_dfs;
  /* free-running validation: the default schedule of every validate_free_stride-th configuration is executed once more with real blocking
   * calls, the real clock and an autonomous helper; the observation logs must agree (0 = off). The harness may veto a
   * configuration by leaving S->free_run_ok at 0. */
  int validate_free_stride;
};

extern int hx_tier;
extern int hx_worker_id;
extern char hx_workdir[300]; /* per-worker scratch directory (cwd of every execution) */

void hx_worker_prepare(void);
void hx_begin(void); /* after vk_cfg has been filled: prepare descriptors, cwd, environ, vk */
void hx_desc(const char *fmt, ...) __attribute__((format(printf, 1, 2)));

/* API wrappers: log, number the call, observe the result */
reproc_t *hx_new(void);
int hx_start(reproc_t *p, const char *const *argv, reproc_options o);
int hx_wait(reproc_t *p, int timeout);
int hx_terminate(reproc_t *p);
int hx_kill(reproc_t *p);
int hx_stop(reproc_t *p, reproc_stop_actions a);
int hx_pid(reproc_t *p);
int hx_read(reproc_t *p, REPROC_STREAM s, uint8_t *buf, size_t n);
int hx_write(reproc_t *p, const uint8_t *buf, size_t n);
int hx_close(reproc_t *p, REPROC_STREAM s);
int hx_poll(reproc_event_source *src, size_t n, int timeout);
reproc_t *hx_destroy(reproc_t *p);
extern int hx_last_api;
extern int hx_time_scale; /* positive timeouts handed to the library are multiplied by this (free runs use real milliseconds); logs show nominal values */ /* sequence number of the API call that just returned */

const char *const *hx_helper_argv(void);
void hx_forked_side(reproc_t *p, int r) __attribute__((noreturn)); /* { <scratch>/bin/vchild, NULL } */

/* end-of-execution ledger clauses shared by several properties; prop = owning property */
void hx_check_ledgers(const char *prop, const char *key, const struct vk_fdsnap *before, int expect_children_reaped);

const char *hx_errname(int r); /* "-EPIPE" etc. for logs and keys */
const char *hx_stop_str(reproc_stop_actions a, char *buf, size_t n);

extern const struct hx_harness *const hx_harnesses[];

#ifdef __cplusplus
}
#endif

#endif
