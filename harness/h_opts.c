/* h_opts.c — C13: conflicting or unsatisfiable options are rejected up front, with no side effect; every
 * documented combination is accepted and resolves to the documented effective redirect. DESIGN.md 3/C13, Appendix A. */
#include "hx.h"
#include "ident.h"

#include <errno.h>
#include <fcntl.h>
#include <stdio.h>
#include <stdlib.h>
#include <string.h>
#include <unistd.h>

extern int vk_dry_hits;

enum { V_VALID, V_INVALID, V_OOR, V_AMBIG };
static const int type_vals[10] = { 0, 1, 2, 3, 4, 5, 6, 7, 8, -1 };

struct sset { int type, h, f, p; };
struct combo {
  struct sset s[3];
  int par, dis, shf, shp;
  int input; /* 0 (NULL,0)  1 (NULL,3)  2 (data,0)  3 (data,3) */
  int fa;    /* 0 (nofork, argv) 1 (nofork, NULL) 2 (nofork, {NULL}) 3 (fork, NULL) 4 (fork, argv) */
};

/* ---- ref_opts: written from reproc.h and the property statement, not from options.c ---- */
static int explicit_of(const struct sset *s, int stream, int *eff)
{
  int n = s->h + s->f + s->p;
  *eff = REPROC_REDIRECT_DEFAULT;
  if (n >= 2) return V_INVALID; /* two different targets */
  int in_range = s->type >= 0 && s->type <= 7;
  if (!in_range) return n == 0 ? V_OOR : V_INVALID;
  if (s->h) { if (s->type == REPROC_REDIRECT_DEFAULT || s->type == REPROC_REDIRECT_HANDLE) { *eff = REPROC_REDIRECT_HANDLE; return V_VALID; } return V_INVALID; }
  if (s->f) { if (s->type == REPROC_REDIRECT_DEFAULT || s->type == REPROC_REDIRECT_FILE) { *eff = REPROC_REDIRECT_FILE; return V_VALID; } return V_INVALID; }
  if (s->p) { if (s->type == REPROC_REDIRECT_DEFAULT || s->type == REPROC_REDIRECT_PATH) { *eff = REPROC_REDIRECT_PATH; return V_VALID; } return V_INVALID; }
  if (s->type == REPROC_REDIRECT_HANDLE || s->type == REPROC_REDIRECT_FILE || s->type == REPROC_REDIRECT_PATH) return V_INVALID; /* lacks what it needs */
  if (s->type == REPROC_REDIRECT_STDOUT && stream != 2) return V_INVALID;
  *eff = s->type;
  return V_VALID;
}

static int is_set(const struct sset *s) { return s->type != REPROC_REDIRECT_DEFAULT || s->h || s->f || s->p; }

static int ref_opts(const struct combo *c, int eff[3])
{
  int invalid = 0, oor = 0, ambig = 0;
  int e[3], v[3];
  for (int i = 0; i < 3; i++) {
    v[i] = explicit_of(&c->s[i], i, &e[i]);
    if (v[i] == V_INVALID) invalid = 1;
    if (v[i] == V_OOR) oor = 1;
  }
  if (c->shf && c->shp) invalid = 1;
  if (c->shf || c->shp) {
    if (is_set(&c->s[1]) || is_set(&c->s[2]) || c->par || c->dis) invalid = 1;
    eff[1] = eff[2] = c->shf ? REPROC_REDIRECT_FILE : REPROC_REDIRECT_PATH;
    eff[0] = e[0] == REPROC_REDIRECT_DEFAULT ? REPROC_REDIRECT_PIPE : e[0];
  } else {
    int any_default = 0;
    for (int i = 0; i < 3; i++) {
      if (v[i] == V_VALID && e[i] == REPROC_REDIRECT_DEFAULT) {
        any_default = 1;
        if (c->par && c->dis) invalid = 1;
        else if (c->par) eff[i] = REPROC_REDIRECT_PARENT;
        else if (c->dis) eff[i] = REPROC_REDIRECT_DISCARD;
        else eff[i] = i == 2 ? REPROC_REDIRECT_PARENT : REPROC_REDIRECT_PIPE;
      } else eff[i] = e[i];
    }
    if (c->par && c->dis && !any_default) ambig = 1;
  }
  int data = c->input >= 2, size = c->input & 1;
  if (size && !data) invalid = 1;
  if (data && !invalid && !oor && eff[0] != REPROC_REDIRECT_PIPE) invalid = 1;
  if (data && (oor || invalid)) {
    /* the effective stdin is undefined when another rule already fails; nothing more to add */
  }
  if (c->fa == 4) invalid = 1;                 /* fork with argv */
  if (c->fa == 1 || c->fa == 2) invalid = 1;   /* no fork without a program */
  if (invalid) return V_INVALID;
  if (oor) return V_OOR;
  if (ambig) return V_AMBIG;
  return V_VALID;
}

/* ---- index spaces ---- */
static void decode_sset(int k, struct sset *s)
{
  s->type = type_vals[k % 10];
  k /= 10;
  s->h = k & 1;
  s->f = (k >> 1) & 1;
  s->p = (k >> 2) & 1;
}
static void decode_tail(long k, struct combo *c)
{
  c->par = k & 1; c->dis = (k >> 1) & 1; c->shf = (k >> 2) & 1; c->shp = (k >> 3) & 1;
  k >>= 4;
  c->input = (int) (k % 4);
  c->fa = (int) (k / 4);
}
#define TAIL 320 /* 16 shorthand sets x 4 input forms x 5 fork/argv forms */

/* quick space: one stream varied alone (3*80), then pairs of streams over a reduced type set */
static const int reduced_types[6] = { 0, 1, 4, 5, 7, 8 }; /* DEFAULT PIPE STDOUT HANDLE PATH out-of-range */
static void decode_reduced(int k, struct sset *s)
{
  s->type = reduced_types[k % 6];
  k /= 6;
  s->h = k & 1;
  s->f = (k >> 1) & 1;
  s->p = (k >> 2) & 1;
}
#define NQ_ALONE (3L * 80 * TAIL)
#define NQ_PAIRS (3L * 48 * 48 * TAIL)
#define NFULL (80L * 80 * 80 * TAIL)

static void decode_quick(long idx, struct combo *c)
{
  memset(c, 0, sizeof *c);
  if (idx < NQ_ALONE) {
    decode_tail(idx % TAIL, c);
    idx /= TAIL;
    decode_sset((int) (idx % 80), &c->s[idx / 80]);
    return;
  }
  idx -= NQ_ALONE;
  decode_tail(idx % TAIL, c);
  idx /= TAIL;
  int a = (int) (idx % 48), b = (int) ((idx / 48) % 48), pair = (int) (idx / 48 / 48);
  static const int pa[3] = { 0, 0, 1 }, pb[3] = { 1, 2, 2 };
  decode_reduced(a, &c->s[pa[pair]]);
  decode_reduced(b, &c->s[pb[pair]]);
}

static void decode_full(long idx, struct combo *c)
{
  memset(c, 0, sizeof *c);
  decode_tail(idx % TAIL, c);
  idx /= TAIL;
  decode_sset((int) (idx % 80), &c->s[0]);
  decode_sset((int) ((idx / 80) % 80), &c->s[1]);
  decode_sset((int) (idx / 6400), &c->s[2]);
}

#define CHUNK 65536L

enum { CL_REJECTED, CL_ACCEPTED, CL_OOR, CL_AMBIG_ACC, CL_AMBIG_REJ, CL_SPAWN_OK, CL_NO_SIDE_EFFECT };
static const char *const c13_clauses[] = { "must-reject-rejected", "must-accept-accepted", "out-of-range-negative", "ambiguous-accepted", "ambiguous-rejected",
                                           "valid-combination-spawned-and-identified", "rejection-without-side-effect", NULL };

static char key[200];
static FILE *u_file;
static int u_handle;
static const uint8_t u_data[3] = { 'a', 'b', 'c' };
static const char *u_argv_empty[1] = { NULL };

static void build_options(const struct combo *c, reproc_options *o, const char *const **argv)
{
  memset(o, 0, sizeof *o);
  reproc_redirect *rd[3] = { &o->redirect.in, &o->redirect.out, &o->redirect.err };
  for (int i = 0; i < 3; i++) {
    rd[i]->type = (REPROC_REDIRECT) c->s[i].type;
    if (c->s[i].h) rd[i]->handle = u_handle;
    if (c->s[i].f) rd[i]->file = u_file;
    if (c->s[i].p) rd[i]->path = "c13-path";
  }
  o->redirect.parent = c->par;
  o->redirect.discard = c->dis;
  if (c->shf) o->redirect.file = u_file;
  if (c->shp) o->redirect.path = "c13-shpath";
  if (c->input >= 2) o->input.data = u_data;
  if (c->input & 1) o->input.size = 3;
  o->fork = c->fa >= 3;
  *argv = (c->fa == 0 || c->fa == 4) ? hx_helper_argv() : c->fa == 2 ? (const char *const *) u_argv_empty : NULL;
}

static void describe(const struct combo *c, char *b, size_t n)
{
  snprintf(b, n, "in=(%d,%d%d%d) out=(%d,%d%d%d) err=(%d,%d%d%d) parent=%d discard=%d file=%d path=%d input=%d forkargv=%d", c->s[0].type, c->s[0].h, c->s[0].f,
           c->s[0].p, c->s[1].type, c->s[1].h, c->s[1].f, c->s[1].p, c->s[2].type, c->s[2].h, c->s[2].f, c->s[2].p, c->par, c->dis, c->shf, c->shp, c->input, c->fa);
}

static void batch(int full, long first, long count, long total)
{
  memset(&vk_cfg, 0, sizeof vk_cfg);
  vk_cfg.dry_mode = 2;
  vk_cfg.vlimit = 24;
  snprintf(key, sizeof key, "h_c13|%s|combos %ld..%ld", full ? "full" : "quick-space", first, first + count - 1);
  hx_desc("%s", key);
  hx_begin();
  u_file = fopen("c13-file", "w");
  u_handle = open("c13-handle", O_RDWR | O_CREAT, 0644);
  struct vk_fdsnap before;
  vk_fd_snapshot(&before);
  reproc_t *p = reproc_new();
  uint64_t h = 1469598103934665603ull;
  long counts[4] = { 0, 0, 0, 0 };
  for (long idx = first; idx < first + count && idx < total; idx++) {
    struct combo c;
    if (full) decode_full(idx, &c); else decode_quick(idx, &c);
    int eff[3] = { 0, 0, 0 };
    int v = ref_opts(&c, eff);
    reproc_options o;
    const char *const *argv;
    build_options(&c, &o, &argv);
    vk_dry_hits = 0;
    int r = reproc_start(p, argv, o);
    h = (h ^ (uint64_t) (unsigned) r) * 1099511628211ull;
    counts[v]++;
    char d[200];
    if (r >= 0) {
      describe(&c, d, sizeof d);
      vk_violation("C13", "dry-start-succeeded", "h_c13", "start returned %d although no resource can be created in this mode: %s", r, d);
      break;
    }
    if (v == V_INVALID) {
      if (r != REPROC_EINVAL || vk_dry_hits) {
        describe(&c, d, sizeof d);
        const char *why = c.s[0].type == 4 || c.s[1].type == 4 ? "stdout-type-on-wrong-stream" : "must-reject";
        char k2[64];
        snprintf(k2, sizeof k2, "h_c13|%s", why);
        if (vk_dry_hits) vk_violation("C13", "rejected-before-side-effects", k2, "options that must be rejected reached %d resource-creating call(s) (result %s): %s", vk_dry_hits, hx_errname(r), d);
        else vk_violation("C13", "must-reject", k2, "options that must be rejected returned %s: %s", hx_errname(r), d);
        break;
      }
      vk_hit(CL_REJECTED);
      vk_hit(CL_NO_SIDE_EFFECT);
    } else if (v == V_VALID) {
      if (r == REPROC_EINVAL && !vk_dry_hits) {
        describe(&c, d, sizeof d);
        vk_violation("C13", "must-accept", "h_c13|must-accept", "a documented combination was rejected with EINVAL: %s", d);
        break;
      }
      vk_hit(CL_ACCEPTED);
    } else if (v == V_OOR) {
      vk_hit(CL_OOR);
    } else {
      vk_hit(r == REPROC_EINVAL && !vk_dry_hits ? CL_AMBIG_REJ : CL_AMBIG_ACC);
    }
  }
  reproc_destroy(p);
  vk_obs("batch %ld+%ld results=%016llx invalid=%ld valid=%ld oor=%ld ambig=%ld", first, count, (unsigned long long) h, counts[V_INVALID], counts[V_VALID], counts[V_OOR], counts[V_AMBIG]);
  hx_check_ledgers("C13", "h_c13", &before, 1);
  fclose(u_file);
  close(u_handle);
}

/* valid combinations of the quick space, spawned for real */
static long *valid_idx;
static long nvalid;

static void collect_valid(void)
{
  static int done;
  if (done) return;
  done = 1;
  valid_idx = malloc(sizeof(long) * 400000);
  uint64_t *seen = calloc(1 << 20, sizeof(uint64_t));
  for (long idx = 0; idx < NQ_ALONE + NQ_PAIRS; idx++) {
    struct combo c;
    decode_quick(idx, &c);
    int eff[3];
    if (ref_opts(&c, eff) != V_VALID || c.fa != 0) continue;
    /* distinct by everything that can matter for the resolution */
    uint64_t hsh = 1469598103934665603ull;
    const unsigned char *b = (const unsigned char *) &c;
    for (size_t i = 0; i < sizeof c; i++) hsh = (hsh ^ b[i]) * 1099511628211ull;
    size_t slot = hsh & ((1 << 20) - 1);
    int dup = 0;
    while (seen[slot]) { if (seen[slot] == hsh) { dup = 1; break; } slot = (slot + 1) & ((1 << 20) - 1); }
    if (dup) continue;
    seen[slot] = hsh;
    if (nvalid < 400000) valid_idx[nvalid++] = idx;
  }
  free(seen);
}

static void spawn_valid(long idx)
{
  struct combo c;
  decode_quick(idx, &c);
  int eff[3];
  ref_opts(&c, eff);
  memset(&vk_cfg, 0, sizeof vk_cfg);
  vk_cfg.real_exec = 1;
  vk_cfg.vlimit = 64;
  char d[200];
  describe(&c, d, sizeof d);
  snprintf(key, sizeof key, "h_c13|spawn|%s", d);
  hx_desc("%s", key);
  snprintf(key, sizeof key, "h_c13|spawn");
  hx_begin();
  u_file = fopen("c13-file", "w");
  u_handle = open("c13-handle", O_RDWR | O_CREAT, 0644);
  reproc_options o;
  const char *const *argv;
  build_options(&c, &o, &argv);
  struct ident_expect ex;
  memset(&ex, 0, sizeof ex);
  for (int i = 0; i < 3; i++) {
    ex.type[i] = eff[i];
    if (eff[i] == REPROC_REDIRECT_PARENT) ident_obj_from_fd(&ex.obj[i], i);
    if (eff[i] == REPROC_REDIRECT_HANDLE) ident_obj_from_fd(&ex.obj[i], u_handle);
    if (eff[i] == REPROC_REDIRECT_FILE) ident_obj_from_fd(&ex.obj[i], fileno(u_file));
  }
  if (c.input >= 2) ex.parent_closed[0] = 1;
  vk_script("");
  reproc_t *p = hx_new();
  int r = hx_start(p, argv, o);
  if (r < 0) {
    vk_violation("C13", "valid-combination-starts", key, "start returned %s for a documented combination: %s", hx_errname(r), d);
  } else {
    struct vk_child *ch = &vk_children[0];
    for (int i = 0; i < 3; i++)
      if (eff[i] == REPROC_REDIRECT_PATH) ident_obj_from_path(&ex.obj[i], (c.shp && i > 0) ? "c13-shpath" : "c13-path");
    if (ident_check("C13", key, ch, &ex) == 0 && ident_api_check("C13", key, p, &ex) == 0) vk_hit(CL_SPAWN_OK);
    reproc_stop_actions k = { { REPROC_STOP_KILL, REPROC_INFINITE }, { REPROC_STOP_NOOP, 0 }, { REPROC_STOP_NOOP, 0 } };
    reproc_stop(p, k);
  }
  hx_destroy(p);
  fclose(u_file);
  close(u_handle);
}

/* a redirect type that is none of the enumerators cannot be satisfied: whatever error the start answers with, no process may have been created
 * for it and nothing may be left (with resources really available this time) */
#define NOOR 9
static void spawn_oor(long k)
{
  static const int oorv[3] = { 8, 99, -1 };
  int stream = (int) (k % 3), tv = oorv[k / 3];
  memset(&vk_cfg, 0, sizeof vk_cfg);
  vk_cfg.real_exec = 1;
  vk_cfg.vlimit = 64;
  snprintf(key, sizeof key, "h_c13|unknown-type|stream=%d|type=%d", stream, tv);
  hx_desc("%s", key);
  snprintf(key, sizeof key, "h_c13|unknown-type");
  hx_begin();
  struct vk_fdsnap before;
  vk_fd_snapshot(&before);
  reproc_options o;
  memset(&o, 0, sizeof o);
  (stream == 0 ? &o.redirect.in : stream == 1 ? &o.redirect.out : &o.redirect.err)->type = (REPROC_REDIRECT) tv;
  vk_script("");
  reproc_t *p = hx_new();
  int r = hx_start(p, hx_helper_argv(), o);
  if (r >= 0) vk_violation("C13", "unknown-type-rejected", key, "start returned %d for redirect type %d on stream %d", r, tv, stream);
  else if (vk_nchildren) vk_violation("C13", "rejected-before-side-effects", key, "redirect type %d on stream %d: start returned %s only after it had forked a child", tv, stream, hx_errname(r));
  else vk_hit(CL_OOR);
  if (r >= 0) { reproc_stop_actions k2 = { { REPROC_STOP_KILL, REPROC_INFINITE }, { REPROC_STOP_NOOP, 0 }, { REPROC_STOP_NOOP, 0 } }; reproc_stop(p, k2); }
  hx_destroy(p);
  hx_check_ledgers("C13", key, &before, 1);
}

static long nbatches(int tier)
{
  long total = tier ? NFULL : NQ_ALONE + NQ_PAIRS;
  return (total + CHUNK - 1) / CHUNK;
}

static long c13_n(int tier)
{
  collect_valid();
  return nbatches(tier) + nvalid + NOOR;
}

static void c13_run(int tier, long cfg)
{
  long nb = nbatches(tier);
  if (cfg < nb) {
    long total = tier ? NFULL : NQ_ALONE + NQ_PAIRS;
    batch(tier, cfg * CHUNK, CHUNK, total);
    return;
  }
  collect_valid();
  if (cfg - nb >= nvalid) { spawn_oor(cfg - nb - nvalid); return; }
  spawn_valid(valid_idx[cfg - nb]);
}

const struct hx_harness h_c13 = { "C13", "h_c13", c13_n, c13_run, c13_clauses, NULL };
