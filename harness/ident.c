/* ident.c — the stream-identity oracle (C10; reused by C04, C13): what each of the child's
 * descriptors 0/1/2 must refer to, judged from the helper's hello report and the kernel. */
#include "ident.h"

#include <errno.h>
#include <fcntl.h>
#include <stdio.h>
#include <string.h>
#include <sys/stat.h>
#include <sys/sysmacros.h>
#include <unistd.h>

static const char *const sname[3] = { "stdin", "stdout", "stderr" };
static const char *const tname[] = { "DEFAULT", "PIPE", "PARENT", "DISCARD", "STDOUT", "HANDLE", "FILE", "PATH" };

const char *ident_type_name(int t)
{
  return t >= 0 && t < 8 ? tname[t] : "?";
}

void ident_obj_from_fd(struct ident_obj *o, int fd)
{
  struct stat st;
  memset(o, 0, sizeof *o);
  if (fstat(fd, &st) == 0) {
    o->valid = 1;
    o->dev = st.st_dev;
    o->ino = st.st_ino;
    o->rdev = st.st_rdev;
  }
}

void ident_obj_from_path(struct ident_obj *o, const char *path)
{
  struct stat st;
  memset(o, 0, sizeof *o);
  if (stat(path, &st) == 0) {
    o->valid = 1;
    o->dev = st.st_dev;
    o->ino = st.st_ino;
    o->rdev = st.st_rdev;
  }
}

static const struct vc_fdinfo *child_fd(const struct vk_child *c, int fd)
{
  for (int i = 0; i < c->hello.nfd; i++)
    if (c->hello.fds[i].fd == fd) return &c->hello.fds[i];
  return NULL;
}

/* the descriptor the parent holds on the pipe with this inode (library-owned), or -1 */
static int parent_end(uint64_t dev, uint64_t ino)
{
  for (int fd = 0; fd < 256; fd++) {
    if (!vk_lib_owns_fd(fd)) continue;
    struct stat st;
    if (fstat(fd, &st) == 0 && st.st_dev == dev && st.st_ino == ino) return fd;
  }
  return -1;
}

int ident_parent_fd_for_stream(const struct vk_child *c, int stream)
{
  const struct vc_fdinfo *f = child_fd(c, stream);
  if (!f || !S_ISFIFO(f->mode)) return -1;
  return parent_end(f->dev, f->ino);
}

int ident_check(const char *prop, const char *key, const struct vk_child *c, const struct ident_expect *ex)
{
  int bad = 0;
  if (!c || !c->have_hello) {
    vk_violation(prop, "no-hello", key, "no helper report to judge the streams from");
    return 1;
  }
  struct stat nul;
  if (stat("/dev/null", &nul) < 0) memset(&nul, 0, sizeof nul);
  for (int i = 0; i < 3; i++) {
    const struct vc_fdinfo *f = child_fd(c, i);
    char cl[40];
    snprintf(cl, sizeof cl, "%s-identity", sname[i]);
    int t = ex->type[i];
    if (!f) {
      vk_violation(prop, cl, key, "child has no descriptor %d (expected %s)", i, ident_type_name(t));
      bad++;
      continue;
    }
    if (f->fdflags & FD_CLOEXEC) {
      vk_violation(prop, cl, key, "child's descriptor %d still has FD_CLOEXEC set", i);
      bad++;
    }
    int acc = f->flags & O_ACCMODE;
    const struct ident_obj *o = &ex->obj[i];
    switch (t) {
      case REPROC_REDIRECT_PIPE: {
        if (!S_ISFIFO(f->mode)) {
          vk_violation(prop, cl, key, "child's %s is not a pipe (mode %o) but PIPE was requested", sname[i], f->mode);
          bad++;
          break;
        }
        int pe = parent_end(f->dev, f->ino);
        if (ex->parent_closed[i]) {
          if (pe >= 0) {
            vk_violation(prop, cl, key, "the parent still holds an end of the %s pipe although start-up input was given", sname[i]);
            bad++;
          } else if (acc != (i == 0 ? O_RDONLY : O_WRONLY)) {
            vk_violation(prop, cl, key, "pipe direction wrong on %s: child access mode %d", sname[i], acc);
            bad++;
          }
          break;
        }
        if (pe < 0) {
          vk_violation(prop, cl, key, "the parent holds no end of the pipe that is the child's %s", sname[i]);
          bad++;
          break;
        }
        int pfl = fcntl(pe, F_GETFL) & O_ACCMODE;
        int want_child = i == 0 ? O_RDONLY : O_WRONLY, want_parent = i == 0 ? O_WRONLY : O_RDONLY;
        if (acc != want_child || pfl != want_parent) {
          vk_violation(prop, cl, key, "pipe direction wrong on %s: child access mode %d, parent access mode %d", sname[i], acc, pfl);
          bad++;
        }
        break;
      }
      case REPROC_REDIRECT_DISCARD:
        if (!(S_ISCHR(f->mode) && f->rdev == nul.st_rdev)) {
          vk_violation(prop, cl, key, "child's %s is not the null device (mode %o rdev %llx)", sname[i], f->mode, (unsigned long long) f->rdev);
          bad++;
        } else if (acc != (i == 0 ? O_RDONLY : O_WRONLY) && acc != O_RDWR) {
          vk_violation(prop, cl, key, "null device on %s opened with access mode %d", sname[i], acc);
          bad++;
        }
        break;
      case REPROC_REDIRECT_PARENT:
        if (!o->valid) {
          /* the parent has no such stream: the null device */
          if (!(S_ISCHR(f->mode) && f->rdev == nul.st_rdev)) {
            vk_violation(prop, cl, key, "parent has no %s, so the child should get the null device, but got mode %o ino %llu", sname[i],
                         f->mode, (unsigned long long) f->ino);
            bad++;
          }
        } else if (ex->parent_may_be_null && S_ISCHR(f->mode) && f->rdev == nul.st_rdev) {
          /* accepted */
        } else if (f->dev != o->dev || f->ino != o->ino) {
          vk_violation(prop, cl, key, "child's %s is not the parent's %s (ino %llu, expected %llu)", sname[i], sname[i],
                       (unsigned long long) f->ino, (unsigned long long) o->ino);
          bad++;
        }
        break;
      case REPROC_REDIRECT_STDOUT: {
        const struct vc_fdinfo *f1 = child_fd(c, 1);
        if (!f1 || f1->dev != f->dev || f1->ino != f->ino || (f1->flags & O_ACCMODE) != acc) {
          vk_violation(prop, cl, key, "child's stderr is not the same open file as its stdout");
          bad++;
        }
        break;
      }
      case REPROC_REDIRECT_HANDLE:
      case REPROC_REDIRECT_FILE:
      case REPROC_REDIRECT_PATH:
        if (!o->valid || f->dev != o->dev || f->ino != o->ino) {
          vk_violation(prop, cl, key, "child's %s is not the requested %s target (ino %llu, expected %llu)", sname[i], ident_type_name(t),
                       (unsigned long long) f->ino, (unsigned long long) o->ino);
          bad++;
        } else if (t == REPROC_REDIRECT_PATH && acc != (i == 0 ? O_RDONLY : O_WRONLY)) {
          vk_violation(prop, cl, key, "path on %s opened with access mode %d", sname[i], acc);
          bad++;
        }
        break;
      default:
        vk_violation(prop, cl, key, "harness error: no effective type for %s", sname[i]);
        bad++;
    }
  }
  return bad;
}

/* API side: the parent has a pipe end exactly for PIPE streams. Never blocks. */
int ident_api_check(const char *prop, const char *key, reproc_t *p, const struct ident_expect *ex)
{
  int bad = 0;
  uint8_t b[1] = { 0 };
  int r = reproc_write(p, b, 0);
  if ((ex->type[0] == REPROC_REDIRECT_PIPE && !ex->parent_closed[0]) ? (r == REPROC_EPIPE) : (r != REPROC_EPIPE)) {
    vk_violation(prop, "stdin-pipe-end", key, "zero-size write returned %s although stdin is %s", hx_errname(r), ident_type_name(ex->type[0]));
    bad++;
  }
  for (int i = 1; i < 3; i++) {
    reproc_event_source src = { p, i == 1 ? REPROC_EVENT_OUT : REPROC_EVENT_ERR, 0 };
    r = reproc_poll(&src, 1, 0);
    int pipe = ex->type[i] == REPROC_REDIRECT_PIPE;
    if (pipe ? (r < 0) : (r != REPROC_EPIPE)) {
      vk_violation(prop, i == 1 ? "stdout-pipe-end" : "stderr-pipe-end", key, "poll on %s returned %s although the stream is %s", sname[i],
                   hx_errname(r), ident_type_name(ex->type[i]));
      bad++;
    }
  }
  return bad;
}
