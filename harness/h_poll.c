/* h_poll.c — C08 (deadlines and timeouts bound every wait and poll) and C09 (poll reports exactly
 * what is true). DESIGN.md 3/C08, 3/C09. Virtual clock; truth probes straight after each return. */
#include "hx.h"
#include "ident.h"

#include <errno.h>
#include <fcntl.h>
#include <limits.h>
#include <poll.h>
#include <signal.h>
#include <stdio.h>
#include <string.h>
#include <sys/stat.h>
#include <sys/wait.h>
#include <unistd.h>

#define NOD INT64_MAX

struct proc {
  reproc_t *p;
  struct vk_child *c;
  int fd[4]; /* parent's descriptors: stdin, stdout, stderr, exit (-1 = none) */
  uint64_t ino[4]; /* and the pipe each one belongs to: descriptor numbers get reused */
  int64_t D; /* absolute deadline or NOD */
};

static int dl_ms(int nominal) { return nominal == INT_MAX || nominal == 0 ? nominal : nominal * hx_time_scale; }

static int find_exit_fd(struct vk_child *c)
{
  for (int i = 0; i < c->hello.nfd; i++) {
    struct vc_fdinfo *f = &c->hello.fds[i];
    if (f->fd <= 2 || !S_ISFIFO(f->mode)) continue;
    for (int fd = 0; fd < 128; fd++) {
      struct stat st;
      if (vk_lib_owns_fd(fd) && fstat(fd, &st) == 0 && st.st_ino == f->ino && st.st_dev == f->dev) return fd;
    }
  }
  return -1;
}

static int proc_prefail; /* the handle's first start (with a 1 ms deadline) fails; the start that counts is its second */

static void proc_start(struct proc *q, const char *script, reproc_options o)
{
  memset(q, 0, sizeof *q);
  q->p = hx_new();
  if (proc_prefail) {
    static const char *const missing[] = { "/nonexistent/c08-program", NULL };
    reproc_options ob;
    memset(&ob, 0, sizeof ob);
    ob.deadline = 1;
    vk_script("");
    int time_on0 = vk_cfg.time_on, sched0 = vk_cfg.sched_on;
    vk_cfg.time_on = vk_cfg.sched_on = 0;
    int rb = hx_start(q->p, missing, ob);
    vk_cfg.time_on = time_on0;
    vk_cfg.sched_on = sched0;
    if (rb >= 0) vk_finish(OUT_INFRA, "start of a missing program succeeded");
    proc_prefail = 0;
  }
  vk_script(script);
  int64_t t = vk_now();
  int time_on = vk_cfg.time_on;
  vk_cfg.time_on = 0;
  int r = hx_start(q->p, hx_helper_argv(), o);
  vk_cfg.time_on = time_on;
  if (r < 0) vk_finish(OUT_INFRA, "start failed in the poll harness: %d", r);
  q->c = &vk_children[vk_nchildren - 1];
  for (int i = 0; i < 3; i++) q->fd[i] = ident_parent_fd_for_stream(q->c, i);
  q->fd[3] = find_exit_fd(q->c);
  for (int i = 0; i < 4; i++) {
    struct stat st;
    q->ino[i] = q->fd[i] >= 0 && fstat(q->fd[i], &st) == 0 ? st.st_ino : 0;
  }
  q->D = o.deadline ? t + o.deadline : NOD;
}

/* fork mode: the forked side continues inside the library, then checks what reproc.h promises there and becomes a helper */
static void proc_start_fork(struct proc *q, const char *script, reproc_options o, int child_first)
{
  memset(q, 0, sizeof *q);
  vk_cfg.fork_mode = 1;
  vk_cfg.fork_child_first = child_first;
  vk_script(script);
  q->p = hx_new();
  int64_t t = vk_now();
  o.fork = true;
  int time_on = vk_cfg.time_on;
  vk_cfg.time_on = 0;
  int r = hx_start(q->p, NULL, o);
  if (vk_side != 0) hx_forked_side(q->p, r);
  vk_cfg.time_on = time_on;
  if (r <= 0) vk_finish(OUT_INFRA, "fork-mode start failed in the poll harness: %d", r);
  q->c = &vk_children[vk_nchildren - 1];
  for (int i = 0; i < 4; i++) { q->fd[i] = -1; q->ino[i] = 0; }
  q->D = o.deadline ? t + o.deadline : NOD;
}

static void proc_fork_identify(struct proc *q)
{
  /* run what is left of the library on the forked side, then match descriptors through its hello */
  int s = vk_cfg.sched_on;
  vk_cfg.sched_on = 0;
  while (q->c->state == CH_LIBPEND) vk_child_step(q->c);
  vk_cfg.sched_on = s;
  if (!q->c->have_hello) vk_finish(OUT_INFRA, "forked side never said hello (state %d)", q->c->state);
  for (int i = 0; i < 3; i++) q->fd[i] = ident_parent_fd_for_stream(q->c, i);
  /* the forked side has (or should still have) the exit pipe's write end: find the parent's read end as the library-owned
   * read-only pipe that is none of the streams */
  for (int fd = 0; fd < 128 && q->fd[3] < 0; fd++) {
    struct stat st;
    if (!vk_lib_owns_fd(fd) || fstat(fd, &st) < 0 || !S_ISFIFO(st.st_mode)) continue;
    if (fd == q->fd[0] || fd == q->fd[1] || fd == q->fd[2]) continue;
    if ((fcntl(fd, F_GETFL) & O_ACCMODE) == O_RDONLY) q->fd[3] = fd;
  }
  for (int i = 0; i < 4; i++) {
    struct stat st;
    q->ino[i] = q->fd[i] >= 0 && fstat(q->fd[i], &st) == 0 ? st.st_ino : 0;
  }
}

static void proc_end(struct proc *q)
{
  if (!q->p) return;
  int s = vk_cfg.sched_on;
  vk_cfg.sched_on = 0;
  if (q->c->state == CH_RUNNING || q->c->state == CH_ZOMBIE || q->c->state == CH_LIBPEND) {
    reproc_stop_actions k = { { REPROC_STOP_KILL, REPROC_INFINITE }, { REPROC_STOP_NOOP, 0 }, { REPROC_STOP_NOOP, 0 } };
    reproc_stop(q->p, k);
  }
  reproc_destroy(q->p);
  q->p = NULL;
  vk_cfg.sched_on = s;
}

static int total_time_dev(int api)
{
  int d = 0;
  for (int i = 0; i < S->nevents; i++)
    if (S->ev[i].api == api && S->ev[i].call == C_CLOCK && S->ev[i].side == 0) d += S->ev[i].injected == 1 ? 1 : S->ev[i].injected == 2 ? vk_cfg.time_jump : 0;
  return d;
}

/* ================================================================= C08 */

enum { CL8_WAIT_STATUS, CL8_WAIT_TIMEOUT, CL8_WAIT_DEADLINE, CL8_POLL_TIMEOUT, CL8_POLL_DEADLINE_WAITED, CL8_POLL_DEADLINE_EXPIRED, CL8_POLL_EVENT,
       CL8_POLL_AGAIN, CL8_TIE, CL8_HANG_OK, CL8_EPIPE, CL8_MULTI_ORDER };
static const char *const c08_clauses[] = { "wait-ended-by-exit", "wait-ended-by-timeout", "wait-ended-by-deadline", "poll-ended-by-timeout",
                                           "poll-ended-by-deadline-after-waiting", "poll-deadline-already-expired", "poll-ended-by-event",
                                           "expired-deadline-reported-again", "timeout-deadline-tie", "legit-hang", "poll-epipe",
                                           "multi-source-deadline-not-first", NULL };

static char key8[200];
static int64_t g_t0;
static int64_t g_bound; /* instant past which the call in progress must not block (NOD = may block forever) */
static int g_kind8;     /* 0 wait, 1 poll */

static void c08_hang(const char *where)
{
  vk_obs("hang(%s)", where);
  if (g_bound == NOD && !strcmp(where, "poll")) { vk_hit(CL8_HANG_OK); return; }
  vk_violation("C08", g_kind8 ? "poll-blocks-past-bound" : "wait-blocks-past-bound", key8,
               "blocked forever in %s although the call is bounded by +%lld ms", where, g_bound == NOD ? -1LL : (long long) (g_bound - g_t0));
}

/* ---- wait part ---- */
static const int w_timeouts[] = { 0, 1, 2, 3, -1, -2 };
static const int w_deadlines[] = { 0, 1, 2, 3, INT_MAX };
#define NWT 6
#define NWD 5
#define NWC 9 /* child: idle, exits by itself, two waits in a row on an idle child, forked (child side first), forked (parent first),
                * exited before the call, exited before the call that comes 4 ms late (after every finite deadline), idle and the call 4 ms late,
                * idle on a handle whose first start (deadline 1 ms) failed */

static void c08_wait_cfg(int ti, int di, int ci, int tier)
{
  int timeout = w_timeouts[ti], deadline = w_deadlines[di];
  memset(&vk_cfg, 0, sizeof vk_cfg);
  vk_cfg.sched_on = 1;
  vk_cfg.sched_bound = 1;
  vk_cfg.time_on = 1;
  vk_cfg.time_bound = 1;
  vk_cfg.time_jump = 5;
  vk_cfg.vlimit = 24;
  vk_cfg.hello_lite = 1;
  vk_cfg.faults_on = 1;
  vk_cfg.fault_bound = 1;
  vk_cfg.fault_calls = 1ull << C_POLL;
  vk_cfg.total_bound = tier ? 2 : 1;
  snprintf(key8, sizeof key8, "h_c08|wait(%d)|deadline=%d|child=%s", timeout, deadline, ci == 1 ? "exits" : ci == 3 ? "forked,child-side-first" : ci == 4 ? "forked,parent-first" : ci == 5 ? "exited-before-the-call" : ci == 6 ? "exited-before-the-late-call" : ci == 7 ? "idle,late-call" : ci == 8 ? "idle,after-failed-start-with-deadline" : "idle");
  hx_desc("%s|%s", key8, ci == 2 ? "twice" : "once");
  snprintf(key8, sizeof key8, "h_c08|wait|timeout=%s|deadline=%s%s", timeout == -1 ? "infinite" : timeout == -2 ? "until-deadline" : "finite", deadline ? "set" : "none", ci == 3 || ci == 4 ? "|fork-mode" : ci == 8 ? "|second-start" : ci >= 5 ? "|late" : "");
  hx_begin();
  vk_set_hang_hook(c08_hang);
  vk_autonomous_gap_ms = 500;
  S->free_run_ok = ci < 3; /* not the fork-mode children: their library steps are stepped by the explorer */
  g_kind8 = 0;
  struct proc q;
  reproc_options o;
  memset(&o, 0, sizeof o);
  o.deadline = dl_ms(deadline);
  proc_prefail = ci == 8;
  if (ci == 3 || ci == 4) proc_start_fork(&q, "", o, ci == 3);
  else proc_start(&q, ci == 1 || ci == 5 || ci == 6 ? "X4" : "", o);
  if (ci == 5 || ci == 6) {
    /* (a scheduling deviation during start may have let it exit already) */
    if (q.c->state == CH_RUNNING) {
      if (!vk_child_enabled(q.c)) vk_finish(OUT_INFRA, "the helper cannot exit");
      vk_child_step(q.c);
    }
  }
  if (ci == 6 || ci == 7) vk_advance(4);
  for (int round = 0; round < (ci == 2 || ci == 3 || ci == 4 ? 2 : 1); round++) {
    int64_t t0 = vk_now();
    g_t0 = t0;
    int64_t bound = timeout >= 0 ? t0 + timeout : timeout == -1 ? NOD : (q.D == NOD ? NOD : (q.D > t0 ? q.D : t0));
    g_bound = bound;
    vk_faults_armed = 1;
    int r = hx_wait(q.p, timeout);
    vk_faults_armed = 0;
    int64_t t1 = vk_now();
    int dev = total_time_dev(hx_last_api);
    int exited = q.c->state == CH_ZOMBIE || q.c->state == CH_REAPED;
    int64_t te = exited ? q.c->exit_time : NOD;
    if (bound != NOD && t1 > bound + dev)
      vk_violation("C08", "wait-blocks-past-bound", key8, "wait returned %s at +%lld ms, its bound is +%lld ms (clock deviations %d ms)", hx_errname(r),
                   (long long) (t1 - t0), (long long) (bound - t0), dev);
    if (r == REPROC_ETIMEDOUT) {
      if (bound == NOD) vk_violation("C08", "wait-timeout-without-bound", key8, "wait returned ETIMEDOUT although it has no time bound");
      else if (t1 < bound) vk_violation("C08", "wait-timeout-early", key8, "wait returned ETIMEDOUT at +%lld ms, before its bound +%lld ms", (long long) (t1 - t0), (long long) (bound - t0));
      else if (te < bound && te < t0) vk_violation("C08", "wait-timeout-although-exited", key8, "wait returned ETIMEDOUT although the child had exited before the call");
      else if (te < bound && te >= t0 && dev == 0) vk_violation("C08", "wait-timeout-although-exited", key8, "wait returned ETIMEDOUT at +%lld ms although the child exited at +%lld ms", (long long) (t1 - t0), (long long) (te - t0));
      else vk_hit(timeout == -2 ? CL8_WAIT_DEADLINE : CL8_WAIT_TIMEOUT);
    } else if (r >= 0) {
      if (!exited) vk_violation("C01", "status-while-running", key8, "wait returned %d while the child runs", r);
      else vk_hit(CL8_WAIT_STATUS);
      break;
    } else {
      struct vk_event *pe = vk_last_event(hx_last_api, C_POLL);
      if (!(pe && pe->injected > 0 && r == -pe->injected)) vk_violation("C08", "wait-unexpected-error", key8, "wait returned %s", hx_errname(r));
    }
  }
  proc_end(&q);
}

/* ---- poll part ---- */
enum { SK_NULL, SK_NODL, SK_D1, SK_D2, SK_D3, SK_EXPIRED, SK_D2R, SK_EXPR, NSK };
static const char *const sk_names[] = { "null", "nodl", "d1", "d2", "d3", "expired", "d2,exited-and-waited-for", "expired,exited-and-waited-for" };
#define SK_REAPED(k) ((k) == SK_D2R || (k) == SK_EXPR)
static const int p_interests[] = { REPROC_EVENT_EXIT, REPROC_EVENT_OUT, REPROC_EVENT_OUT | REPROC_EVENT_EXIT };
static const int p_timeouts[] = { 0, 1, 2, 3, -1 };
enum { CE_IDLE, CE_OUTPUT, CE_EXIT, NCE };
static const char *const ce_names[] = { "idle", "writes", "exits" };

static void check_poll(struct proc *procs, int n, const int *kinds, reproc_event_source *src, int timeout, int r, int64_t t0, int64_t t1, int dev, int round)
{
  /* deadlines as of this call */
  int64_t dmin = NOD;
  int nexpired = 0;
  for (int i = 0; i < n; i++) {
    if (kinds[i] == SK_NULL) {
      if (src[i].events != 0) vk_violation("C09", "null-source-silent", key8, "a source without process reported events %x", (unsigned) src[i].events);
      continue;
    }
    if (procs[i].D < dmin) dmin = procs[i].D;
    if (procs[i].D <= t0) nexpired++;
  }
  int64_t tb = timeout >= 0 ? t0 + timeout : NOD;
  int64_t bound = tb < dmin ? tb : dmin;
  if (bound != NOD && bound < t0) bound = t0;
  if (r < 0) {
    /* EPIPE: nothing pollable (all sources null, or reaped with only the exit interest: its exit handle is gone) */
    int any = 0;
    for (int i = 0; i < n; i++) any |= kinds[i] != SK_NULL && !(SK_REAPED(kinds[i]) && !(src[i].interests & REPROC_EVENT_OUT));
    if (r == REPROC_EPIPE && !any) {
      /* nothing can be polled - but a deadline that has already expired is reported all the same, on every poll (C08; C09 alone would take either) */
      if (nexpired) vk_violation("C08", "expired-deadline-reported", key8, "a deadline had already expired, yet poll answered with the closed-pipe error instead of the deadline event");
      else vk_hit(CL8_EPIPE);
      return;
    }
    struct vk_event *pe = vk_last_event(hx_last_api, C_POLL);
    if (pe && pe->injected > 0 && r == -pe->injected) {
      if (bound != NOD && t1 > bound + dev)
        vk_violation("C08", "poll-blocks-past-bound", key8, "poll returned %s at +%lld ms, it must not block past +%lld ms", hx_errname(r), (long long) (t1 - t0), (long long) (bound - t0));
      return;
    }
    vk_violation("C08", "poll-unexpected-error", key8, "poll returned %s", hx_errname(r));
    return;
  }
  if (bound != NOD && t1 > bound + dev) {
    vk_violation("C08", "poll-blocks-past-bound", key8, "poll returned %d at +%lld ms; timeout %d, earliest deadline at +%lld ms: it must not block past +%lld ms", r,
                 (long long) (t1 - t0), timeout, dmin == NOD ? -1LL : (long long) (dmin - t0), (long long) (bound - t0));
    return;
  }
  int ndl = 0, nother = 0, kdl = -1, cnt = 0;
  for (int i = 0; i < n; i++) {
    if (src[i].events & REPROC_EVENT_DEADLINE) { ndl++; kdl = i; }
    if (src[i].events & ~REPROC_EVENT_DEADLINE) nother++;
    if (src[i].events) cnt++;
  }
  if (ndl && (ndl != 1 || nother)) { vk_violation("C08", "deadline-event-alone", key8, "a deadline was reported together with other events (%d deadline source(s), %d with other events)", ndl, nother); return; }
  if (r != cnt) { vk_violation("C09", "count-matches-events", key8, "poll returned %d but %d source(s) carry events", r, cnt); return; }
  if (r == 0) {
    if (timeout < 0) { vk_violation("C08", "poll-zero-without-timeout", key8, "poll returned 0 although it has no timeout"); return; }
    if (dev > 0 && t1 >= t0 + timeout) { vk_hit(CL8_POLL_TIMEOUT); return; }
    if (t1 < tb) { vk_violation("C08", "poll-timeout-early", key8, "poll returned 0 at +%lld ms, before its timeout of %d ms", (long long) (t1 - t0), timeout); return; }
    if (dmin < tb) { vk_violation("C08", "poll-timeout-hides-deadline", key8, "poll returned 0 (timeout %d ms) although a deadline at +%lld ms came first", timeout, (long long) (dmin - t0)); return; }
    if (dmin == tb) vk_hit(CL8_TIE);
    vk_hit(CL8_POLL_TIMEOUT);
    return;
  }
  if (ndl) {
    if (ndl != 1 || nother) { vk_violation("C08", "deadline-event-alone", key8, "a deadline was reported together with other events (%d deadline source(s), %d with other events)", ndl, nother); return; }
    int64_t Dk = procs[kdl].D;
    if (dev > 0 && kinds[kdl] != SK_NULL && Dk != NOD && Dk <= t1) {
      /* the clock moved while the call was reading it: "already expired" and "expired while waiting" cannot be told apart; the safety
       * clauses above (never past the bound, never early) are all that can be demanded */
      vk_hit(CL8_POLL_DEADLINE_WAITED);
      return;
    }
    if (kinds[kdl] == SK_NULL || Dk == NOD) { vk_violation("C08", "deadline-on-right-source", key8, "the deadline event is on source %d, which has no deadline", kdl); return; }
    if (Dk > t1) { vk_violation("C08", "deadline-event-early", key8, "deadline event at +%lld ms for a deadline at +%lld ms", (long long) (t1 - t0), (long long) (Dk - t0)); return; }
    if (Dk <= t0) {
      /* already expired at call time: immediate; any expired source may carry it */
      if (t1 != t0 + dev && t1 > t0 + dev) { vk_violation("C08", "expired-deadline-immediate", key8, "an already expired deadline was reported only after %lld ms", (long long) (t1 - t0)); return; }
      vk_hit(CL8_POLL_DEADLINE_EXPIRED);
      if (round > 0) vk_hit(CL8_POLL_AGAIN);
    } else {
      if (Dk != dmin && dev == 0) { vk_violation("C08", "deadline-on-earliest", key8, "the deadline event is on source %d (deadline +%lld ms) but the earliest deadline is +%lld ms", kdl, (long long) (Dk - t0), (long long) (dmin - t0)); return; }
      if (tb < Dk) { vk_violation("C08", "deadline-after-timeout", key8, "a deadline event was reported although the timeout (%d ms) came first", timeout); return; }
      if (tb == Dk) vk_hit(CL8_TIE);
      vk_hit(CL8_POLL_DEADLINE_WAITED);
      if (kdl > 0) vk_hit(CL8_MULTI_ORDER);
    }
    return;
  }
  vk_hit(CL8_POLL_EVENT);
}

static int have_expired_kind(const int *kinds, int n)
{
  for (int i = 0; i < n; i++) if (kinds[i] == SK_EXPIRED || kinds[i] == SK_EXPR) return 1;
  return 0;
}

static void c08_poll_cfg(int n, const int *kinds, int ii, int ti, int ce)
{
  memset(&vk_cfg, 0, sizeof vk_cfg);
  vk_cfg.sched_on = 1;
  vk_cfg.sched_bound = 1;
  vk_cfg.time_on = 1;
  vk_cfg.time_bound = 1;
  vk_cfg.time_jump = 5;
  vk_cfg.vlimit = 40;
  vk_cfg.hello_lite = 1;
  vk_cfg.faults_on = 1;
  vk_cfg.fault_bound = 1;
  vk_cfg.fault_calls = 1ull << C_POLL;
  vk_cfg.total_bound = hx_tier && n <= 2 ? 2 : 1; /* three sources: one deviation; the pairs that matter are covered with two sources */
  int interests = p_interests[ii], timeout = p_timeouts[ti];
  char ks[40] = "";
  for (int i = 0; i < n; i++) { strcat(ks, sk_names[kinds[i]]); strcat(ks, i + 1 < n ? "," : ""); }
  snprintf(key8, sizeof key8, "h_c08|poll|sources=%s|interests=%x|timeout=%d|children=%s", ks, (unsigned) interests, timeout, ce_names[ce]);
  hx_desc("%s", key8);
  snprintf(key8, sizeof key8, "h_c08|poll|sources=%d|timeout=%s", n, timeout < 0 ? "infinite" : "finite");
  hx_begin();
  vk_set_hang_hook(c08_hang);
  {
    /* comparable with a free run unless two children race for who acts first while the poll waits without timeout */
    int nreal = 0;
    for (int i = 0; i < n; i++) nreal += kinds[i] != SK_NULL;
    S->free_run_ok = !(nreal >= 2 && ce != CE_IDLE && timeout < 0);
    /* exact ties between the timeout and a deadline exist on the virtual clock only */
    for (int i = 0; i < n; i++) {
      if (SK_REAPED(kinds[i])) S->free_run_ok = 0;
      if (kinds[i] < SK_D1 || kinds[i] > SK_D3 || timeout <= 0) continue;
      int left = kinds[i] - SK_D1 + 1 - (have_expired_kind(kinds, n) ? 1 : 0); /* nominal ms until this deadline when the first poll starts */
      if (left == timeout || left == 2 * timeout) S->free_run_ok = 0;          /* a tie in the first or in the second poll */
    }
    vk_autonomous_gap_ms = 500;
  }
  g_kind8 = 1;
  struct proc procs[3];
  memset(procs, 0, sizeof procs);
  int have_expired = 0;
  for (int i = 0; i < n; i++) {
    if (kinds[i] == SK_NULL) continue;
    reproc_options o;
    memset(&o, 0, sizeof o);
    o.deadline = dl_ms(kinds[i] == SK_NODL ? 0 : (kinds[i] == SK_EXPIRED || kinds[i] == SK_EXPR) ? 1 : kinds[i] == SK_D2R ? 2 : kinds[i] - SK_D1 + 1);
    if (kinds[i] == SK_EXPIRED || kinds[i] == SK_EXPR) have_expired = 1;
    if (SK_REAPED(kinds[i])) {
      /* its child has exited and its status has been collected, but it stays in the array: its deadline still counts */
      proc_start(&procs[i], "X0 ;", o);
      int so = vk_cfg.sched_on, to = vk_cfg.time_on;
      vk_cfg.sched_on = vk_cfg.time_on = 0;
      int w = hx_wait(procs[i].p, REPROC_INFINITE);
      vk_cfg.sched_on = so;
      vk_cfg.time_on = to;
      if (w != 0) vk_finish(OUT_INFRA, "setup wait returned %d", w);
      continue;
    }
    proc_start(&procs[i], ce == CE_OUTPUT ? "W1:1" : ce == CE_EXIT ? "X0" : "", o);
  }
  /* all deadlines count from the same instant; an "expired" one is 1 ms and we let 1 ms pass */
  if (have_expired) {
    vk_advance(1 * hx_time_scale);
    for (int i = 0; i < n; i++)
      if (kinds[i] >= SK_D1 && kinds[i] <= SK_D3) procs[i].D += 0; /* unchanged: deadlines are absolute */
  }
  reproc_event_source src[3];
  for (int round = 0; round < 2; round++) {
    for (int i = 0; i < n; i++) {
      src[i].process = kinds[i] == SK_NULL ? NULL : procs[i].p;
      src[i].interests = interests;
      src[i].events = 0x5a5a; /* stale garbage the call has to overwrite */
    }
    int64_t t0 = vk_now();
    g_t0 = t0;
    int64_t dmin = NOD;
    for (int i = 0; i < n; i++)
      if (kinds[i] != SK_NULL && procs[i].D < dmin) dmin = procs[i].D;
    int64_t tb = timeout >= 0 ? t0 + timeout : NOD;
    g_bound = tb < dmin ? tb : dmin;
    vk_faults_armed = 1;
    int r = hx_poll(src, (size_t) n, timeout);
    vk_faults_armed = 0;
    int64_t t1 = vk_now();
    check_poll(procs, n, kinds, src, timeout, r, t0, t1, total_time_dev(hx_last_api), round);
    if (S->nviol) break;
  }
  vk_cfg.sched_on = 0;
  vk_cfg.time_on = 0;
  for (int i = 0; i < n; i++) proc_end(&procs[i]);
}

static long c08_n(int tier)
{
  long nsrc = NSK + NSK * NSK + (tier ? NSK * NSK * NSK : 0);
  return (long) NWT * NWD * NWC + nsrc * 3 * 5 * NCE;
}

static void c08_run(int tier, long cfg)
{
  long nw = (long) NWT * NWD * NWC;
  if (cfg < nw) {
    c08_wait_cfg((int) (cfg % NWT), (int) ((cfg / NWT) % NWD), (int) (cfg / NWT / NWD), tier);
    return;
  }
  cfg -= nw;
  int ce = (int) (cfg % NCE);
  cfg /= NCE;
  int ti = (int) (cfg % 5);
  cfg /= 5;
  int ii = (int) (cfg % 3);
  cfg /= 3;
  int kinds[3], n;
  if (cfg < NSK) { n = 1; kinds[0] = (int) cfg; }
  else if (cfg < NSK + NSK * NSK) { cfg -= NSK; n = 2; kinds[0] = (int) (cfg % NSK); kinds[1] = (int) (cfg / NSK); }
  else { cfg -= NSK + NSK * NSK; n = 3; kinds[0] = (int) (cfg % NSK); kinds[1] = (int) ((cfg / NSK) % NSK); kinds[2] = (int) (cfg / NSK / NSK); }
  c08_poll_cfg(n, kinds, ii, ti, ce);
}

/* ================================================================= C09 */

enum { OS_IDLE, OS_DATA, OS_CHILD_CLOSED, OS_PARENT_CLOSED, OS_EOF_REPORTED, OS_NOT_PIPE, OS_READ_INTERRUPTED, NOS };
static const char *const os_names[] = { "idle", "data", "closed-by-child", "closed-by-parent", "eof-reported", "not-a-pipe", "idle,after-an-interrupted-read" };
enum { INS_IDLE, INS_CHILD_CLOSED, INS_PARENT_CLOSED, INS_FULL, INS_FULL_CHILD_CLOSED, INS_INPUT, NINS };
static const char *const ins_names[] = { "idle", "closed-by-child", "closed-by-parent", "full", "full,then-closed-by-child", "closed-after-start-up-input" };
enum { CS_RUNNING, CS_ZOMBIE, CS_REAPED, CS_WAITFAIL, NCS };
static const char *const cs_names[] = { "running", "zombie", "reaped", "zombie,reap-interrupted" };

enum { CL9_EXACT, CL9_COUNT, CL9_EPIPE, CL9_NOT_EPIPE, CL9_FOLLOWUP_READ, CL9_FOLLOWUP_WRITE, CL9_FOLLOWUP_WAIT, CL9_BIT_IN, CL9_BIT_OUT, CL9_BIT_ERR, CL9_BIT_EXIT,
       CL9_NOBIT_IN, CL9_NOBIT_OUT, CL9_NOBIT_ERR, CL9_NOBIT_EXIT, CL9_TIMEOUT, CL9_DEADLINE };
static const char *const c09_clauses[] = { "events-equal-truth", "count-equals-sources-with-events", "epipe-returned", "epipe-not-returned", "followup-read-ok",
                                           "followup-write-ok", "followup-wait-ok", "in-reported", "out-reported", "err-reported", "exit-reported", "in-not-reported",
                                           "out-not-reported", "err-not-reported", "exit-not-reported", "timeout", "expired-deadline-exclusive", NULL };

static char key9[220];

static int still_held(const struct proc *q, int k)
{
  struct stat st;
  return q->fd[k] >= 0 && vk_lib_owns_fd(q->fd[k]) && fstat(q->fd[k], &st) == 0 && st.st_ino == q->ino[k];
}

static int truth_ready(const struct proc *q, int k, short ev)
{
  if (!still_held(q, k)) return -1; /* not pollable */
  int fd = q->fd[k];
  struct pollfd p = { fd, ev, 0 };
  int r = poll(&p, 1, 0);
  return r > 0 && p.revents != 0;
}

static void c09_hang(const char *where)
{
  vk_obs("hang(%s)", where);
  vk_violation("C09", "unexpected-hang", key9, "blocked forever in %s", where);
}

struct c09_setup {
  int os, ins, err_pipe, cs;
  int expired_deadline;
};

static void c09_prepare(struct proc *q, const struct c09_setup *su)
{
  reproc_options o;
  memset(&o, 0, sizeof o);
  o.nonblocking = true; /* follow-up probes must never block the harness */
  if (su->expired_deadline) o.deadline = 1;
  if (su->os == OS_NOT_PIPE) o.redirect.out.type = REPROC_REDIRECT_DISCARD;
  if (su->err_pipe) o.redirect.err.type = REPROC_REDIRECT_PIPE;
  if (su->ins == INS_INPUT) { o.input.data = (const uint8_t *) "ab"; o.input.size = 2; } /* the library closes the parent's end once the input is written */
  char script[64] = "";
  if (su->os == OS_DATA) strcat(script, "W1:3 ");
  if (su->os == OS_CHILD_CLOSED || su->os == OS_EOF_REPORTED) strcat(script, "C1 ");
  int fill = su->ins == INS_FULL || su->ins == INS_FULL_CHILD_CLOSED, late = 0;
  if (su->ins == INS_CHILD_CLOSED) strcat(script, "C0 ");
  if (su->cs != CS_RUNNING && !fill) strcat(script, "X6 ");
  strcat(script, "; ");
  /* a full stdin pipe: the reader goes away (closes, exits) only after the parent has filled it; the harness releases those steps itself */
  if (su->ins == INS_FULL_CHILD_CLOSED) { strcat(script, "C0 "); late++; }
  if (su->cs != CS_RUNNING && fill) { strcat(script, "X6 "); late++; }
  /* one more step left for the explorer to release around the poll (only if the child is still running) */
  if (su->cs == CS_RUNNING) strcat(script, su->err_pipe ? "W2:1" : (su->os == OS_IDLE ? "W1:1" : "X6"));
  proc_start(q, script, o);
  int s = vk_cfg.sched_on;
  vk_cfg.sched_on = 0;
  uint8_t b[8];
  if (fill) {
    static uint8_t page[4096];
    if (q->fd[0] < 0 || fcntl(q->fd[0], F_SETPIPE_SZ, 4096) < 0) vk_finish(OUT_INFRA, "cannot size the stdin pipe");
    for (int g = 0; g < 8; g++) {
      int w = hx_write(q->p, page, sizeof page);
      if (w == REPROC_EWOULDBLOCK || w == REPROC_EPIPE) break; /* (EPIPE: a scheduling deviation during start let the reader go first) */
      if (w < 0) vk_finish(OUT_INFRA, "filling stdin: %d", w);
    }
    while (q->c->state == CH_RUNNING && q->c->pos - q->c->nsetup < late) {
      if (!vk_child_enabled(q->c)) vk_finish(OUT_INFRA, "the helper cannot make its late step");
      vk_child_step(q->c);
    }
  }
  if (su->os == OS_PARENT_CLOSED) hx_close(q->p, REPROC_STREAM_OUT);
  if (su->os == OS_EOF_REPORTED) {
    int r = hx_read(q->p, REPROC_STREAM_OUT, b, sizeof b);
    if (r != REPROC_EPIPE) vk_finish(OUT_INFRA, "setup read returned %d", r);
  }
  if (su->os == OS_READ_INTERRUPTED) {
    /* a read that a signal of the caller interrupted says nothing about the stream: it is still there to be polled */
    vk_force_fault(C_READ, EINTR);
    int r = hx_read(q->p, REPROC_STREAM_OUT, b, sizeof b);
    vk_force_fault(0, 0);
    if (r != -EINTR && r != REPROC_EWOULDBLOCK) vk_finish(OUT_INFRA, "setup read with an interruption returned %d", r);
    if (!still_held(q, 1)) vk_violation("C09", "stream-kept-after-interrupted-read", "h_c09|setup", "after a read that failed with %s the parent no longer holds the stdout pipe: it can never be reported again", hx_errname(r));
  }
  if (su->ins == INS_PARENT_CLOSED) hx_close(q->p, REPROC_STREAM_IN);
  if (su->cs == CS_REAPED) {
    int r = hx_wait(q->p, REPROC_INFINITE);
    if (r != 6) vk_finish(OUT_INFRA, "setup wait returned %d", r);
  }
  if (su->cs == CS_WAITFAIL) {
    /* a wait found the child gone but its reap was interrupted: the child is still an unreaped zombie and its exit is still there to be reported */
    vk_force_fault(C_WAITPID, EINTR);
    int r = hx_wait(q->p, REPROC_INFINITE);
    vk_force_fault(0, 0);
    if (r != -EINTR && r != 6) vk_finish(OUT_INFRA, "setup wait with an interrupted reap returned %d", r);
    if (r == -EINTR && !still_held(q, 3)) vk_violation("C09", "exit-handle-kept-after-interrupted-reap", "h_c09|setup", "after a wait whose reap was interrupted the parent no longer holds the exit handle: the exit can never be reported again");
  }
  vk_cfg.sched_on = s;
}

static void c09_check(struct proc *procs, int n, reproc_event_source *src, int timeout, int r)
{
  /* EPIPE <=> no requested stream of any source can still be polled */
  int pollable = 0;
  for (int i = 0; i < n; i++) {
    if (!src[i].process) continue;
    static const int bits[4] = { REPROC_EVENT_IN, REPROC_EVENT_OUT, REPROC_EVENT_ERR, REPROC_EVENT_EXIT };
    for (int k = 0; k < 4; k++)
      if ((src[i].interests & bits[k]) && still_held(&procs[i], k)) pollable = 1;
  }
  if (r == REPROC_EPIPE) {
    if (pollable) vk_violation("C09", "epipe-only-when-nothing-pollable", key9, "poll returned EPIPE although a requested stream can still be polled");
    else vk_hit(CL9_EPIPE);
    return;
  }
  if (r < 0) { vk_violation("C09", "poll-unexpected-error", key9, "poll returned %s", hx_errname(r)); return; }
  /* (an expired deadline is reported before anything is polled: with nothing pollable either answer is accepted, DESIGN.md section 1) */
  for (int i = 0; i < n; i++) {
    if (!(src[i].process && (src[i].events & REPROC_EVENT_DEADLINE))) continue;
    /* an expired deadline: exactly that, on that source, and nothing stale anywhere else */
    int others = 0;
    for (int j = 0; j < n; j++)
      if (j != i && src[j].events) others++;
    if (src[i].events != REPROC_EVENT_DEADLINE || others || r != 1 || procs[i].D > vk_now())
      vk_violation("C09", "deadline-event-exclusive", key9, "poll returned %d; source %d reports %x and %d other source(s) carry events", r, i, (unsigned) src[i].events, others);
    else vk_hit(CL9_DEADLINE);
    return;
  }
  if (!pollable) { vk_violation("C09", "epipe-when-nothing-pollable", key9, "poll returned %d although no requested stream of any source can be polled", r); return; }
  vk_hit(CL9_NOT_EPIPE);
  int cnt = 0, any_truth = 0;
  for (int i = 0; i < n; i++) {
    if (!src[i].process) {
      if (src[i].events) vk_violation("C09", "null-source-silent", key9, "a source without process reported events %x", (unsigned) src[i].events);
      continue;
    }
    if (src[i].events) cnt++;
    int ev = src[i].events & ~REPROC_EVENT_DEADLINE;
    if (ev & ~src[i].interests) {
      vk_violation("C09", "events-subset-of-interests", key9, "events %x reported for interests %x", (unsigned) ev, (unsigned) src[i].interests);
      return;
    }
    int truth = 0;
    if ((src[i].interests & REPROC_EVENT_IN) && truth_ready(&procs[i], 0, POLLOUT) == 1) truth |= REPROC_EVENT_IN;
    if ((src[i].interests & REPROC_EVENT_OUT) && truth_ready(&procs[i], 1, POLLIN) == 1) truth |= REPROC_EVENT_OUT;
    if ((src[i].interests & REPROC_EVENT_ERR) && truth_ready(&procs[i], 2, POLLIN) == 1) truth |= REPROC_EVENT_ERR;
    if ((src[i].interests & REPROC_EVENT_EXIT) && truth_ready(&procs[i], 3, POLLIN) == 1) truth |= REPROC_EVENT_EXIT;
    any_truth |= truth;
    if (ev != truth) {
      vk_violation("C09", "events-equal-truth", key9, "source %d: reported %x, but polling the parent's descriptors directly says %x (interests %x)", i,
                   (unsigned) ev, (unsigned) truth, (unsigned) src[i].interests);
      return;
    }
    for (int k = 0; k < 4; k++)
      if (src[i].interests & (1 << k)) vk_hit((ev & (1 << k)) ? CL9_BIT_IN + k : CL9_NOBIT_IN + k);
  }
  vk_hit(CL9_EXACT);
  if (r != cnt) { vk_violation("C09", "count-matches-events", key9, "poll returned %d but %d source(s) carry events", r, cnt); return; }
  vk_hit(CL9_COUNT);
  if (r == 0) {
    if (any_truth) vk_violation("C09", "timeout-although-ready", key9, "poll returned 0 although something it was asked about is ready");
    vk_hit(CL9_TIMEOUT);
    (void) timeout;
    return;
  }
  /* follow-up: what was reported can be consumed without waiting */
  int s = vk_cfg.sched_on;
  vk_cfg.sched_on = 0;
  for (int i = 0; i < n; i++) {
    if (!src[i].process) continue;
    uint8_t b[4];
    int ev = src[i].events;
    for (int st = 1; st <= 2; st++) {
      if (!(ev & (st == 1 ? REPROC_EVENT_OUT : REPROC_EVENT_ERR))) continue;
      int rr = hx_read(src[i].process, st == 1 ? REPROC_STREAM_OUT : REPROC_STREAM_ERR, b, 1);
      struct vk_event *e = vk_last_event(hx_last_api, C_READ);
      if (rr == REPROC_EWOULDBLOCK || (e && e->blocked)) vk_violation("C09", "reported-output-readable", key9, "an output event was reported but the read %s", rr == REPROC_EWOULDBLOCK ? "would block" : "blocked");
      else vk_hit(CL9_FOLLOWUP_READ);
    }
    if (ev & REPROC_EVENT_IN) {
      int rr = hx_write(src[i].process, b, 1);
      struct vk_event *e = vk_last_event(hx_last_api, C_WRITE);
      if (rr == REPROC_EWOULDBLOCK || (e && e->blocked)) vk_violation("C09", "reported-input-writable", key9, "an input event was reported but a one-byte write %s", rr == REPROC_EWOULDBLOCK ? "would block" : "blocked");
      else vk_hit(CL9_FOLLOWUP_WRITE);
    }
    if (ev & REPROC_EVENT_EXIT) {
      int rr = hx_wait(src[i].process, 0);
      if (rr == REPROC_ETIMEDOUT || vk_reap_blocked) vk_violation("C09", "reported-exit-waitable", key9, "an exit event was reported but wait(0) %s", rr == REPROC_ETIMEDOUT ? "timed out" : "blocked in the reap");
      else vk_hit(CL9_FOLLOWUP_WAIT);
    }
  }
  vk_cfg.sched_on = s;
}

#define NSETUP (NOS * NINS * 2 * NCS)

/* two-source configurations of the quick tier leave the full-stdin states to the one-source ones */
#define NSETUP2(tier) (NOS * ((tier) ? NINS : 3) * 2 * NCS)

static void decode_setup(long v, struct c09_setup *su, int nins)
{
  su->os = (int) (v % NOS);
  v /= NOS;
  su->ins = (int) (v % nins);
  v /= nins;
  su->err_pipe = (int) (v % 2);
  v /= 2;
  su->cs = (int) (v % NCS);
  su->expired_deadline = 0;
}

/* second-source variants for two-source configurations */
static const struct c09_setup second[] = {
  { OS_IDLE, INS_IDLE, 0, CS_RUNNING }, { OS_DATA, INS_IDLE, 0, CS_RUNNING }, { OS_CHILD_CLOSED, INS_CHILD_CLOSED, 1, CS_ZOMBIE }, { OS_NOT_PIPE, INS_PARENT_CLOSED, 0, CS_REAPED },
};
#define NSECOND 4

#define NFORKCFG 12
#define NPRE9 8 /* one source on a handle whose first start (deadline 1 ms) failed; polled after that time has passed */

static void c09_fork_cfg(long k)
{
  int child_first = (int) (k % 2);
  k /= 2;
  static const int fmasks[3] = { 8, 10, 15 };
  int mask = fmasks[k % 3];
  int timeout = (k / 3) ? 2 : 0;
  memset(&vk_cfg, 0, sizeof vk_cfg);
  vk_cfg.sched_on = 1;
  vk_cfg.sched_bound = 2;
  vk_cfg.vlimit = 40;
  vk_cfg.hello_lite = 1;
  snprintf(key9, sizeof key9, "h_c09|fork-mode|%s|mask=%x|timeout=%d", child_first ? "forked-side-first" : "parent-first", (unsigned) mask, timeout);
  hx_desc("%s", key9);
  snprintf(key9, sizeof key9, "h_c09|fork-mode");
  hx_begin();
  vk_set_hang_hook(c09_hang);
  struct proc procs[3];
  memset(procs, 0, sizeof procs);
  reproc_options o;
  memset(&o, 0, sizeof o);
  o.nonblocking = true;
  proc_start_fork(&procs[0], "", o, child_first);
  reproc_event_source src[1] = { { procs[0].p, mask, 0x7f } };
  /* the forked child is alive and idle for the whole execution: whatever the order of the two sides, no exit may be reported */
  for (int round = 0; round < 2; round++) {
    src[0].events = 0x7f;
    int r = hx_poll(src, 1, timeout);
    if (r >= 0 && (src[0].events & REPROC_EVENT_EXIT)) {
      int w = hx_wait(procs[0].p, 0);
      vk_violation("C09", "exit-reported-while-running", key9, "an exit event was reported for a forked child that is still running (state %d); wait(0) then %s", procs[0].c->state,
                   vk_reap_blocked ? "blocked in the reap" : hx_errname(w));
      break;
    }
    if (round == 0) proc_fork_identify(&procs[0]);
    else c09_check(procs, 1, src, timeout, r);
  }
  vk_cfg.sched_on = 0;
  proc_end(&procs[0]);
}

static long c09_n(int tier)
{
  /* one source: setup x 16 masks x 2 timeouts; two sources: setup x second x {mask pairs reduced} x 2 timeouts, with a NULL source interleaved */
  long one = (long) NSETUP * 16 * 2;
  long two = (long) NSETUP2(tier) * NSECOND * (tier ? 16 : 4) * 2 * 2;
  return one + two + NFORKCFG + NPRE9;
}

static void c09_run(int tier, long cfg)
{
  long one = (long) NSETUP * 16 * 2;
  int pre9 = 0;
  {
    long two = (long) NSETUP2(tier) * NSECOND * (tier ? 16 : 4) * 2 * 2;
    if (cfg >= one + two + NFORKCFG) pre9 = (int) (cfg - one - two - NFORKCFG) + 1;
    else if (cfg >= one + two) { c09_fork_cfg(cfg - one - two); return; }
  }
  struct c09_setup su[2];
  int masks[2] = { 0, 0 }, timeout, n = 1;
  if (pre9) {
    int k = pre9 - 1;
    timeout = (k & 1) ? 2 : 0;
    masks[0] = 15;
    memset(&su[0], 0, sizeof su[0]);
    su[0].os = (k & 2) ? OS_DATA : OS_IDLE;
    su[0].ins = INS_IDLE;
    su[0].cs = (k & 4) ? CS_ZOMBIE : CS_RUNNING;
  } else if (cfg < one) {
    timeout = (cfg % 2) ? 2 : 0;
    cfg /= 2;
    masks[0] = (int) (cfg % 16);
    cfg /= 16;
    decode_setup(cfg, &su[0], NINS);
  } else {
    cfg -= one;
    n = 2;
    timeout = (cfg % 2) ? 2 : 0;
    cfg /= 2;
    int dl = (int) (cfg % 2);
    cfg /= 2;
    int nm = tier ? 16 : 4;
    static const int quickmasks[4] = { 15, 2, 8, 5 };
    masks[0] = tier ? (int) (cfg % nm) : quickmasks[cfg % nm];
    cfg /= nm;
    su[1] = second[cfg % NSECOND];
    masks[1] = 15;
    cfg /= NSECOND;
    decode_setup(cfg, &su[0], tier ? NINS : 3);
    su[1].expired_deadline = dl; /* the LAST source carries the expired deadline: everything before it must be cleared */
  }
  memset(&vk_cfg, 0, sizeof vk_cfg);
  vk_cfg.sched_on = 1;
  vk_cfg.sched_bound = 1;
  vk_cfg.vlimit = 40;
  vk_cfg.hello_lite = 1;
  snprintf(key9, sizeof key9, "h_c09|n=%d|out=%s|in=%s|err=%s|child=%s|mask=%x|timeout=%d", n, os_names[su[0].os], ins_names[su[0].ins],
           su[0].err_pipe ? "pipe" : "parent", cs_names[su[0].cs], (unsigned) masks[0], timeout);
  if (n == 2)
    snprintf(key9 + strlen(key9), sizeof key9 - strlen(key9), "|second=%s,%s,%s%s", os_names[su[1].os], ins_names[su[1].ins], cs_names[su[1].cs],
             su[1].expired_deadline ? ",deadline-expired" : "");
  if (pre9) snprintf(key9 + strlen(key9), sizeof key9 - strlen(key9), "|after-failed-start-with-deadline");
  hx_desc("%s", key9);
  snprintf(key9, sizeof key9, "h_c09|sources=%d%s", n == 2 ? 3 : 1, pre9 ? "|second-start" : "");
  hx_begin();
  vk_set_hang_hook(c09_hang);
  struct proc procs[3];
  memset(procs, 0, sizeof procs);
  reproc_event_source src[3];
  int ns = 0;
  proc_prefail = pre9 != 0;
  c09_prepare(&procs[0], &su[0]);
  if (pre9) vk_advance(3);
  src[ns].process = procs[0].p; src[ns].interests = masks[0]; src[ns].events = 0x7f; ns++;
  if (n == 2) {
    /* a source without process in between */
    src[ns].process = NULL; src[ns].interests = 15; src[ns].events = 0x7f; ns++;
    c09_prepare(&procs[2], &su[1]);
    src[ns].process = procs[2].p; src[ns].interests = masks[1]; src[ns].events = 0x7f; ns++;
  }
  if (n == 2 && su[1].expired_deadline) vk_advance(2);
  int r = hx_poll(src, (size_t) ns, timeout);
  c09_check(procs, ns, src, timeout, r);
  vk_cfg.sched_on = 0;
  for (int i = 0; i < 3; i++) proc_end(&procs[i]);
}

const struct hx_harness h_c08 = { "C08", "h_c08", c08_n, c08_run, c08_clauses, NULL, 0, { 0, 0 }, 0, 5 };
const struct hx_harness h_c09 = { "C09", "h_c09", c09_n, c09_run, c09_clauses, NULL };
