/* hx_common.c — per-execution setup and API wrappers shared by all harnesses. */
#include "hx.h"

#include <dirent.h>
#include <errno.h>
#include <fcntl.h>
#include <signal.h>
#include <stdarg.h>
#include <stdio.h>
#include <stdlib.h>
#include <string.h>
#include <sys/stat.h>
#include <sys/wait.h>
#include <unistd.h>

int hx_last_api;
int hx_time_scale = 1;
static int sc(int t) { return t > 0 ? t * hx_time_scale : t; }

void hx_desc(const char *fmt, ...)
{
  va_list ap;
  va_start(ap, fmt);
  vsnprintf(S->cfgdesc, sizeof S->cfgdesc, fmt, ap);
  va_end(ap);
}

static char *fixed_env[] = { "PATH=/usr/bin:/bin", "HX_PARENT=1", "LANG=C", NULL };

/* called once by the worker: everything an execution inherits (cwd, descriptors 0-2, nothing else below the
 * harness range, default dispositions, empty mask) is prepared here so that hx_begin() is nearly free */
void hx_worker_prepare(void)
{
  if (chdir(hx_workdir) < 0) {
    perror(hx_workdir);
    exit(2);
  }
  /* keep the worker's own stderr for diagnostics */
  int keep = fcntl(2, F_DUPFD_CLOEXEC, HARNESS_FD_BASE + 500);
  (void) keep;
  int fd;
  fd = open("stdin.txt", O_RDONLY | O_CREAT, 0644);
  if (fd != 0) { dup2(fd, 0); close(fd); }
  fd = open("stdout.txt", O_WRONLY | O_CREAT | O_APPEND, 0644);
  if (fd != 1) { dup2(fd, 1); close(fd); }
  fd = open("stderr.txt", O_WRONLY | O_CREAT | O_APPEND, 0644);
  if (fd != 2) { dup2(fd, 2); close(fd); }
  DIR *d = opendir("/proc/self/fd");
  if (d) {
    int dfd = dirfd(d);
    struct dirent *e;
    int tokill[512], nk = 0;
    while ((e = readdir(d))) {
      if (e->d_name[0] < '0' || e->d_name[0] > '9') continue;
      int f = atoi(e->d_name);
      if (f > 2 && f != dfd && f < HARNESS_FD_BASE && nk < 512) tokill[nk++] = f;
    }
    closedir(d);
    for (int i = 0; i < nk; i++) close(tokill[i]);
  }
  sigset_t none;
  sigemptyset(&none);
  sigprocmask(SIG_SETMASK, &none, NULL);
  for (int s = 1; s < 32; s++)
    if (s != SIGKILL && s != SIGSTOP && s != SIGALRM) signal(s, SIG_DFL);
}

void hx_begin(void)
{
  signal(SIGALRM, SIG_DFL); /* the worker's watchdog handler is not part of the execution's state */
  vk_exec_init();
  vk_environ = fixed_env;
  vk_faults_armed = 0;
  hx_time_scale = vk_cfg.passthru ? 30 : 1; /* free runs: 1 nominal ms = 30 real ms, far above scheduling jitter, far below the helper's step gap */
}

const char *const *hx_helper_argv(void)
{
  static const char *av[2];
  av[0] = vk_helper_path;
  av[1] = NULL;
  return av;
}

const char *hx_errname(int r)
{
  static char b[4][24];
  static int k;
  char *s = b[k++ & 3];
  if (r >= 0) { snprintf(s, 24, "%d", r); return s; }
  switch (-r) {
    case EINVAL: return "-EINVAL";
    case EPIPE: return "-EPIPE";
    case ETIMEDOUT: return "-ETIMEDOUT";
    case ENOMEM: return "-ENOMEM";
    case EWOULDBLOCK: return "-EWOULDBLOCK";
    case EINTR: return "-EINTR";
    case ECHILD: return "-ECHILD";
    case ESRCH: return "-ESRCH";
    case EPERM: return "-EPERM";
    case ENOENT: return "-ENOENT";
    case EACCES: return "-EACCES";
    case EMFILE: return "-EMFILE";
    case ENFILE: return "-ENFILE";
    case EBADF: return "-EBADF";
    case EIO: return "-EIO";
    case ENOTDIR: return "-ENOTDIR";
    case E2BIG: return "-E2BIG";
    case EFAULT: return "-EFAULT";
    case ENAMETOOLONG: return "-ENAMETOOLONG";
    case EISDIR: return "-EISDIR";
    case ENOEXEC: return "-ENOEXEC";
    case ERANGE: return "-ERANGE";
  }
  snprintf(s, 24, "%d", r);
  return s;
}

static const char *stop_name(int a)
{
  switch (a) {
    case REPROC_STOP_NOOP: return "noop";
    case REPROC_STOP_WAIT: return "wait";
    case REPROC_STOP_TERMINATE: return "term";
    case REPROC_STOP_KILL: return "kill";
  }
  return "bad";
}

static void tmo(char *b, size_t n, int t)
{
  if (t == REPROC_INFINITE) snprintf(b, n, "inf");
  else if (t == REPROC_DEADLINE) snprintf(b, n, "dl");
  else snprintf(b, n, "%d", t);
}

const char *hx_stop_str(reproc_stop_actions a, char *buf, size_t n)
{
  char t1[16], t2[16], t3[16];
  tmo(t1, sizeof t1, a.first.timeout);
  tmo(t2, sizeof t2, a.second.timeout);
  tmo(t3, sizeof t3, a.third.timeout);
  snprintf(buf, n, "%s:%s,%s:%s,%s:%s", stop_name((int) a.first.action), t1, stop_name((int) a.second.action), t2,
           stop_name((int) a.third.action), t3);
  return buf;
}

reproc_t *hx_new(void)
{
  hx_last_api = vk_api_begin("new()");
  reproc_t *p = reproc_new();
  vk_api_end(p != NULL);
  return p;
}

int hx_start(reproc_t *p, const char *const *argv, reproc_options o)
{
  hx_last_api = vk_api_begin("start(argv0=%s fork=%d nonblocking=%d deadline=%d)", argv && argv[0] ? argv[0] : "(null)",
                             o.fork, o.nonblocking, o.deadline);
  int r = reproc_start(p, argv, o);
  if (vk_side != 0) return r; /* forked side: the caller decides what to do */
  vk_api_end(r);
  vk_obs("start=%s", r > 0 ? "pid" : hx_errname(r));
  return r;
}

int hx_wait(reproc_t *p, int timeout)
{
  hx_last_api = vk_api_begin("wait(%d)", timeout);
  int r = reproc_wait(p, sc(timeout));
  vk_api_end(r);
  vk_obs("wait(%d)=%s", timeout, hx_errname(r));
  return r;
}

int hx_terminate(reproc_t *p)
{
  hx_last_api = vk_api_begin("terminate()");
  int r = reproc_terminate(p);
  vk_api_end(r);
  vk_obs("terminate=%s", hx_errname(r));
  return r;
}

int hx_kill(reproc_t *p)
{
  hx_last_api = vk_api_begin("kill()");
  int r = reproc_kill(p);
  vk_api_end(r);
  vk_obs("kill=%s", hx_errname(r));
  return r;
}

int hx_stop(reproc_t *p, reproc_stop_actions a)
{
  char b[100];
  hx_last_api = vk_api_begin("stop(%s)", hx_stop_str(a, b, sizeof b));
  reproc_stop_actions as = a;
  as.first.timeout = sc(a.first.timeout);
  as.second.timeout = sc(a.second.timeout);
  as.third.timeout = sc(a.third.timeout);
  int r = reproc_stop(p, as);
  vk_api_end(r);
  vk_obs("stop(%s)=%s", b, hx_errname(r));
  return r;
}

int hx_pid(reproc_t *p)
{
  hx_last_api = vk_api_begin("pid()");
  int r = reproc_pid(p);
  vk_api_end(r);
  vk_obs("pid=%s", r > 0 ? "pid" : hx_errname(r));
  return r;
}

int hx_read(reproc_t *p, REPROC_STREAM s, uint8_t *buf, size_t n)
{
  hx_last_api = vk_api_begin("read(stream=%d,size=%zu)", (int) s, n);
  int r = reproc_read(p, s, buf, n);
  vk_api_end(r);
  vk_obs("read(%d,%zu)=%s", (int) s, n, hx_errname(r));
  return r;
}

int hx_write(reproc_t *p, const uint8_t *buf, size_t n)
{
  hx_last_api = vk_api_begin("write(size=%zu)", n);
  int r = reproc_write(p, buf, n);
  vk_api_end(r);
  vk_obs("write(%zu)=%s", n, hx_errname(r));
  return r;
}

int hx_close(reproc_t *p, REPROC_STREAM s)
{
  hx_last_api = vk_api_begin("close(stream=%d)", (int) s);
  int r = reproc_close(p, s);
  vk_api_end(r);
  vk_obs("close(%d)=%s", (int) s, hx_errname(r));
  return r;
}

int hx_poll(reproc_event_source *src, size_t n, int timeout)
{
  hx_last_api = vk_api_begin("poll(n=%zu,timeout=%d)", n, timeout);
  int r = reproc_poll(src, n, sc(timeout));
  vk_api_end(r);
  char ev[64] = "";
  size_t o = 0;
  for (size_t i = 0; src && r >= 0 && i < n && i < 4 && o < sizeof ev - 8; i++) o += (size_t) snprintf(ev + o, sizeof ev - o, "%x,", (unsigned) src[i].events);
  vk_obs("poll(%zu,%d)=%s ev=%s", n, timeout, hx_errname(r), r >= 0 ? ev : "-");
  return r;
}

reproc_t *hx_destroy(reproc_t *p)
{
  hx_last_api = vk_api_begin("destroy()");
  reproc_t *r = reproc_destroy(p);
  vk_api_end(r != NULL);
  vk_obs("destroy=%s", r ? "non-null" : "null");
  return r;
}

void hx_check_ledgers(const char *prop, const char *key, const struct vk_fdsnap *before, int expect_children_reaped)
{
  char diff[400];
  struct vk_fdsnap after;
  vk_fd_snapshot(&after);
  if (before && !vk_fd_snapshot_equal(before, &after, diff, sizeof diff))
    vk_violation(prop, "fd-set-restored", key, "descriptor table differs from the one before the first call: %s", diff);
  if (vk_fd_ledger_open_count() != 0)
    vk_violation(prop, "fd-ledger-empty", key, "%d descriptor(s) opened by the library were never closed", vk_fd_ledger_open_count());
  if (vk_heap_live_count() != 0)
    vk_violation(prop, "heap-ledger-empty", key, "%d block(s), %zu bytes allocated by the library were never released",
                 vk_heap_live_count(), vk_heap_live_bytes());
  if (vk_foreign_closes) vk_violation(prop, "no-foreign-close", key, "the library tried to close %d descriptor(s) it did not open", vk_foreign_closes);
  if (vk_double_closes) vk_violation(prop, "no-double-close", key, "the library closed %d descriptor(s) twice", vk_double_closes);
  if (vk_foreign_frees) vk_violation(prop, "no-foreign-free", key, "the library released %d block(s) it does not own (or twice)", vk_foreign_frees);
  if (expect_children_reaped) {
    for (int i = 0; i < vk_nchildren; i++) {
      struct vk_child *c = &vk_children[i];
      if (c->state != CH_REAPED)
        vk_violation(prop, "child-reaped", key, "child %d (pid %d) was left unreaped (state %d)", i, c->pid, c->state);
    }
  }
}

/* fork mode, forked side: every call except destroy must be rejected (reproc.h); then the process becomes a scripted helper */
void hx_forked_side(reproc_t *p, int r)
{
  /* on the forked side of fork mode: every call except destroy must be rejected */
  if (r != 0) {
    vk_violation("C04", "fork-child-result", "h_start|fork", "start returned %d on the forked side", r);
    _exit(0);
  }
  /* C12 on the forked side: no exec follows that would reset anything, the library has to have done it */
  {
    sigset_t cur;
    sigemptyset(&cur);
    sigprocmask(SIG_SETMASK, NULL, &cur);
    for (int sg = 1; sg < 32; sg++) {
      if (sigismember(&cur, sg)) { vk_violation("C12", "child-mask-empty", "h_start|fork", "the forked side starts with signal %d blocked", sg); break; }
    }
    for (int sg = 1; sg < 32; sg++) {
      struct sigaction act;
      if (sg == SIGKILL || sg == SIGSTOP || sigaction(sg, NULL, &act) < 0) continue;
      if (act.sa_handler != SIG_DFL) {
        vk_violation("C12", "child-dispositions-default", "h_start|fork", "the forked side starts with signal %d %s", sg, act.sa_handler == SIG_IGN ? "ignored" : "still caught by the parent's handler");
        break;
      }
    }
  }
  uint8_t b[4];
  reproc_stop_actions sa = { { REPROC_STOP_KILL, 0 }, { REPROC_STOP_NOOP, 0 }, { REPROC_STOP_NOOP, 0 } };
  int rs[8];
  rs[0] = reproc_pid(p);
  rs[1] = reproc_wait(p, 0);
  rs[2] = reproc_terminate(p);
  rs[3] = reproc_kill(p);
  rs[4] = reproc_stop(p, sa);
  rs[5] = reproc_read(p, REPROC_STREAM_OUT, b, sizeof b);
  rs[6] = reproc_write(p, b, 1);
  rs[7] = reproc_close(p, REPROC_STREAM_IN);
  static const char *const nm[] = { "pid", "wait", "terminate", "kill", "stop", "read", "write", "close" };
  for (int i = 0; i < 8; i++)
    if (rs[i] != REPROC_EINVAL)
      vk_violation("C14", "forked-side-rejects", "h_start|fork", "reproc_%s on the forked side returned %s instead of EINVAL", nm[i], hx_errname(rs[i]));
  reproc_options o2;
  memset(&o2, 0, sizeof o2);
  int r2 = reproc_start(p, hx_helper_argv(), o2);
  if (r2 != REPROC_EINVAL) vk_violation("C14", "forked-side-rejects", "h_start|fork", "reproc_start on the forked side returned %s", hx_errname(r2));
  if (reproc_destroy(p) != NULL) vk_violation("C15", "destroy-returns-null", "h_start|fork", "destroy on the forked side did not return NULL");
  vk_forked_side_becomes_helper();
}

