/* h_start.c — start scenarios under fault enumeration: C04 (all-or-nothing start), C05 (no leak /
 * foreign / double close), C06 (only the own unreaped child is signalled or reaped), C12 (caller
 * untouched, child starts clean). One body, four configuration spaces. DESIGN.md 3/C04,C05,C06,C12. */
#include "hx.h"
#include "ident.h"

#include <errno.h>
#include <fcntl.h>
#include <signal.h>
#include <stdio.h>
#include <stdlib.h>
#include <string.h>
#include <sys/stat.h>
#include <sys/wait.h>
#include <unistd.h>

enum { SC_DEFAULT, SC_PIPES_INPUT, SC_ERR2OUT, SC_DISCARD, SC_PATH, SC_FILE, SC_HANDLE, SC_PARENT, SC_WORKDIR, SC_ENV, SC_NONBLOCK, SC_FORK, SC_STDSRC, SC_PARENT_CLOSED, NSCN };
static const char *const scn_names[] = { "default", "pipes+input", "stderr-to-stdout", "discard", "path", "file", "handle", "parent",
                                         "workdir+relative", "env-extend", "nonblocking", "fork", "stderr-to-parent-stdout-by-handle", "parent,stdin+stderr-closed" };

enum { H_DESTROY, H_WAIT, H_ROUNDTRIP, H_DRAIN, H_TERMKILL, H_KILLWAIT, H_RUNEX, H_LATEPOLL, H_DRAIN_STRING, NHIST };
static const char *const hist_names[] = { "destroy", "wait", "roundtrip", "drain", "term-wait-kill", "kill-wait", "run_ex", "deadline-passes,poll,drain,kill,wait", "drain-into-strings" };

enum { N_MISSING, N_DIRECTORY, N_NOEXEC, N_TOOLONG, N_WD_MISSING, N_WD_FILE, N_PATH_NODIR, N_PATH_ISDIR, N_INPUT_BIG, N_BARE_MISSING, N_OWN_HANDLE_CLOSED, N_OWN_FILE_CLOSED, N_MISSING_NOSTD, N_WD_MISSING_NOSTD, NNAT };
static const char *const nat_names[] = { "missing-program", "directory-as-program", "no-x-bit", "path-too-long", "workdir-missing",
                                         "workdir-is-file", "redirect-path-no-dir", "redirect-path-is-dir", "input-over-pipe-size",
                                         "bare-name-not-in-PATH", "stdout-handle-1-closed", "stderr-FILE-closed", "missing-program,no-std-descriptors,discard", "workdir-missing,no-std-descriptors,discard" };
static const int nat_errno[] = { ENOENT, EACCES, EACCES, ENAMETOOLONG, ENOENT, ENOTDIR, ENOENT, EISDIR, EAGAIN, ENOENT, EBADF, EBADF, ENOENT, ENOENT };

enum {
  CL_START_FAILED_CLEAN, CL_START_OK_DESPITE_FAULT, CL_START_OK, CL_RESTART_OK, CL_NATURAL, CL_LEDGERS_CLEAN, CL_USER_OBJECTS_INTACT,
  CL_NO_BAD_TARGET, CL_AFTER_REAP_NOOP, CL_PARENT_STATE_SAME, CL_CHILD_SIG_CLEAN, CL_FAULT_PARENT, CL_FAULT_CHILD, CL_HANG, CL_ROUNDTRIP_OK
};
static const char *const start_clauses[] = { "start-failed-cleanly", "start-ok-despite-fault", "start-ok-no-fault", "restart-after-failure-ok",
                                             "natural-failure-exact-errno", "ledgers-clean", "user-objects-intact", "kill-wait-targets-ok",
                                             "after-reap-terminate-kill-noop", "parent-state-unchanged", "child-signal-state-clean",
                                             "fault-on-parent-side", "fault-on-child-side", "hang", "roundtrip-ok", NULL };

struct procstate {
  sigset_t mask;
  struct sigaction sa[32];
  char cwd[512];
  char **envp;
  uint64_t envhash;
};

static void take_state(struct procstate *p)
{
  memset(p, 0, sizeof *p);
  pthread_sigmask(SIG_SETMASK, NULL, &p->mask);
  for (int s = 1; s < 32; s++) sigaction(s, NULL, &p->sa[s]);
  if (!getcwd(p->cwd, sizeof p->cwd)) strcpy(p->cwd, "?");
  p->envp = vk_environ;
  uint64_t h = 1469598103934665603ull;
  for (char **e = vk_environ; e && *e; e++)
    for (const char *c = *e;; c++) {
      h = (h ^ (unsigned char) *c) * 1099511628211ull;
      if (!*c) break;
    }
  p->envhash = h;
}

static int same_state(const struct procstate *a, const struct procstate *b, char *why, size_t n)
{
  for (int s = 1; s < 32; s++) {
    if (sigismember(&a->mask, s) != sigismember(&b->mask, s)) {
      snprintf(why, n, "signal %d is %s in the caller's mask after start", s, sigismember(&b->mask, s) ? "blocked" : "no longer blocked");
      return 0;
    }
    if (a->sa[s].sa_handler != b->sa[s].sa_handler) {
      snprintf(why, n, "disposition of signal %d changed", s);
      return 0;
    }
  }
  if (strcmp(a->cwd, b->cwd)) { snprintf(why, n, "working directory changed to %s", b->cwd); return 0; }
  if (a->envp != b->envp || a->envhash != b->envhash) { snprintf(why, n, "environment changed"); return 0; }
  return 1;
}

/* ---- parent signal configurations (C12) ---- */
static void dummy_handler(int s) { (void) s; }
static const int sig_subjects[] = { SIGHUP, SIGINT, SIGPIPE, SIGTERM, SIGUSR1 };
#define NSUBJ 5
#define NTABLES 12 /* all-default, each single ignore (5), each single handler (5) - first ten + all-ignore + all-handler: see apply */
#define NMASKS 4

static void apply_sigcfg(int mask_id, int table_id, char *desc, size_t n)
{
  sigset_t m;
  sigemptyset(&m);
  switch (mask_id) {
    case 1: sigaddset(&m, SIGTERM); break;
    case 2: sigaddset(&m, SIGINT); sigaddset(&m, SIGCHLD); sigaddset(&m, SIGPIPE); sigaddset(&m, SIGUSR1); break;
    case 3: sigfillset(&m); break;
  }
  for (int i = 0; i < NSUBJ; i++) {
    __sighandler_t h = SIG_DFL;
    if (table_id >= 1 && table_id <= 5 && i == table_id - 1) h = SIG_IGN;
    if (table_id >= 6 && table_id <= 10 && i == table_id - 6) h = dummy_handler;
    if (table_id == 11) h = (i & 1) ? dummy_handler : SIG_IGN;
    if (table_id == 0 && sig_subjects[i] == SIGPIPE) h = SIG_IGN; /* the harness default */
    signal(sig_subjects[i], h);
  }
  pthread_sigmask(SIG_SETMASK, &m, NULL);
  snprintf(desc, n, "mask%d,disp%d", mask_id, table_id);
}

/* ---- scenario construction ---- */
struct scn {
  reproc_options o;
  const char *const *argv;
  struct ident_expect ex;
  char script[128];
  int user_fds[3];
  FILE *user_file;
  int in_bytes, out_bytes, err_bytes; /* round trip volumes */
  int merged;
  const char *env_extra[3];
  const char *rel_argv[2];
  const uint8_t *input;
  int exit_code;
};

static void scn_build(int s, int hist, struct scn *c)
{
  memset(c, 0, sizeof *c);
  c->user_fds[0] = c->user_fds[1] = c->user_fds[2] = -1;
  c->argv = hx_helper_argv();
  c->exit_code = 7;
  /* defaults */
  c->ex.type[0] = REPROC_REDIRECT_PIPE;
  c->ex.type[1] = REPROC_REDIRECT_PIPE;
  c->ex.type[2] = REPROC_REDIRECT_PARENT;
  ident_obj_from_fd(&c->ex.obj[2], 2);
  switch (s) {
    case SC_PIPES_INPUT:
      c->o.redirect.err.type = REPROC_REDIRECT_PIPE;
      c->ex.type[2] = REPROC_REDIRECT_PIPE;
      c->input = (const uint8_t *) "hey";
      c->o.input.data = c->input;
      c->o.input.size = 3;
      c->ex.parent_closed[0] = 1;
      break;
    case SC_ERR2OUT:
      c->o.redirect.err.type = REPROC_REDIRECT_STDOUT;
      c->ex.type[2] = REPROC_REDIRECT_STDOUT;
      c->merged = 1;
      break;
    case SC_DISCARD:
      c->o.redirect.discard = true;
      c->ex.type[0] = c->ex.type[1] = c->ex.type[2] = REPROC_REDIRECT_DISCARD;
      break;
    case SC_PATH:
      c->o.redirect.path = "out-path.txt";
      c->ex.type[1] = c->ex.type[2] = REPROC_REDIRECT_PATH;
      break;
    case SC_FILE:
      c->user_file = fopen("out-file.txt", "w");
      c->o.redirect.file = c->user_file;
      c->ex.type[1] = c->ex.type[2] = REPROC_REDIRECT_FILE;
      ident_obj_from_fd(&c->ex.obj[1], fileno(c->user_file));
      c->ex.obj[2] = c->ex.obj[1];
      break;
    case SC_HANDLE:
      c->user_fds[0] = open("h-in.txt", O_RDONLY | O_CREAT, 0644);
      c->user_fds[1] = open("h-out.txt", O_WRONLY | O_CREAT, 0644);
      c->user_fds[2] = open("h-err.txt", O_WRONLY | O_CREAT, 0644);
      c->o.redirect.in.handle = c->user_fds[0];
      c->o.redirect.out.handle = c->user_fds[1];
      c->o.redirect.err.handle = c->user_fds[2];
      for (int i = 0; i < 3; i++) {
        c->ex.type[i] = REPROC_REDIRECT_HANDLE;
        ident_obj_from_fd(&c->ex.obj[i], c->user_fds[i]);
      }
      break;
    case SC_PARENT:
      c->o.redirect.parent = true;
      for (int i = 0; i < 3; i++) {
        c->ex.type[i] = REPROC_REDIRECT_PARENT;
        ident_obj_from_fd(&c->ex.obj[i], i);
      }
      break;
    case SC_WORKDIR:
      mkdir("sub", 0755);
      c->o.working_directory = "sub";
      c->rel_argv[0] = "../bin/vchild";
      c->rel_argv[1] = NULL;
      c->argv = c->rel_argv;
      break;
    case SC_ENV:
      c->env_extra[0] = "A=1";
      c->env_extra[1] = "B=two words";
      c->env_extra[2] = NULL;
      c->o.env.extra = c->env_extra;
      break;
    case SC_NONBLOCK:
      c->o.nonblocking = true;
      break;
    case SC_FORK:
      c->o.fork = true;
      c->argv = NULL;
      break;
    case SC_PARENT_CLOSED:
      /* the parent has no stdin and no stderr: those streams fall back to the null device, and what the library opens lands on 0-2 */
      close(0);
      close(2);
      c->o.redirect.parent = true;
      for (int i = 0; i < 3; i++) {
        c->ex.type[i] = REPROC_REDIRECT_PARENT;
        ident_obj_from_fd(&c->ex.obj[i], i);
      }
      break;
    case SC_STDSRC:
      /* a source that is itself a standard descriptor of the parent, for another stream: the child copies it before installing anything */
      c->o.redirect.out.type = REPROC_REDIRECT_PARENT;
      c->o.redirect.err.type = REPROC_REDIRECT_HANDLE;
      c->o.redirect.err.handle = 1;
      c->ex.type[1] = REPROC_REDIRECT_PARENT;
      ident_obj_from_fd(&c->ex.obj[1], 1);
      c->ex.type[2] = REPROC_REDIRECT_HANDLE;
      ident_obj_from_fd(&c->ex.obj[2], 1);
      break;
  }
  /* round trip volumes and child script */
  char *p = c->script;
  size_t room = sizeof c->script;
  int k;
  if (c->ex.type[0] == REPROC_REDIRECT_PIPE) {
    c->in_bytes = c->input ? 3 : 2;
    k = snprintf(p, room, "R%d ", c->in_bytes);
    p += k; room -= (size_t) k;
  }
  if (c->ex.type[1] == REPROC_REDIRECT_PIPE) {
    c->out_bytes = 3;
    k = snprintf(p, room, "W1:3 ");
    p += k; room -= (size_t) k;
  }
  if (c->ex.type[2] == REPROC_REDIRECT_PIPE || (c->merged && c->ex.type[1] == REPROC_REDIRECT_PIPE)) {
    c->err_bytes = 2;
    k = snprintf(p, room, "W2:2 ");
    p += k; room -= (size_t) k;
  }
  snprintf(p, room, "X%d", c->exit_code);
  /* histories that do not communicate get a child that does not wait for input */
  if (hist == H_DESTROY || hist == H_WAIT) snprintf(c->script, sizeof c->script, "X%d", c->exit_code);
  if (hist == H_TERMKILL || hist == H_KILLWAIT || hist == H_LATEPOLL) c->script[0] = 0; /* dies on the signal */
  if (hist == H_LATEPOLL) c->o.deadline = 2;
}

static void scn_post_path_identity(struct scn *c)
{
  /* the file named by a PATH redirect exists only once start has opened it */
  for (int i = 0; i < 3; i++)
    if (c->ex.type[i] == REPROC_REDIRECT_PATH) ident_obj_from_path(&c->ex.obj[i], "out-path.txt");
}

static void scn_release(struct scn *c)
{
  if (c->user_file) fclose(c->user_file);
  for (int i = 0; i < 3; i++)
    if (c->user_fds[i] >= 0) close(c->user_fds[i]);
}

/* ---- drain sink ---- */
static int count_sink(REPROC_STREAM stream, const uint8_t *buffer, size_t size, void *context)
{
  (void) buffer;
  int *cnt = context;
  if (stream == REPROC_STREAM_OUT || stream == REPROC_STREAM_ERR) cnt[stream] += (int) size;
  return 0;
}

/* ---- the body ---- */
struct params {
  const char *prop;    /* property whose check this run belongs to (for hang attribution only) */
  int scn, hist;
  int nat;             /* natural failure id or -1 */
  int mask_id, table_id;
  int faults;          /* bound */
  int fault_window;    /* 0 none, 1 start only, 2 whole history */
  int real_exec;
  int sched;           /* scheduling deviations allowed during the history */
  int fork_child_first;
};

static const char *g_prop;
static int g_in_start;

static void start_hang(const char *where)
{
  vk_hit(CL_HANG);
  if (g_in_start)
    vk_violation("C04", "start-hangs", "h_start", "reproc_start blocked forever in %s", where);
  vk_obs("hang(%s)", where);
  /* the execution ends here: what the end-of-history check would have said about the targets of kill()/waitpid() */
  if (vk_bad_kills || vk_bad_waits)
    vk_violation("C06", "kill-wait-target", "h_start|hang", "%d kill and %d waitpid call(s) targeted something other than the live, unreaped child of the handle (the call then blocked forever in %s)",
                 vk_bad_kills, vk_bad_waits, where);
}

static int any_injected(int api, int *err_out, int *side_mask)
{
  int n = 0;
  for (int i = 0; i < S->nevents; i++) {
    struct vk_event *e = &S->ev[i];
    if (e->api == api && e->injected != 0 && e->injected != -9) {
      if (n < 4) err_out[n] = e->injected;
      n++;
      *side_mask |= e->side ? 2 : 1;
    }
  }
  return n;
}

static void body(const struct params *pa)
{
  char key[160], sigdesc[40] = "-";
  struct scn sc;
  memset(&vk_cfg, 0, sizeof vk_cfg);
  vk_cfg.real_exec = pa->real_exec;
  vk_cfg.fork_mode = pa->scn == SC_FORK;
  vk_cfg.fork_child_first = pa->fork_child_first;
  vk_cfg.sched_on = pa->sched > 0;
  vk_cfg.sched_bound = pa->sched;
  vk_cfg.faults_on = pa->faults > 0;
  vk_cfg.fault_bound = pa->faults;
  vk_cfg.vlimit = 24;
  g_prop = pa->prop;
  hx_desc("h_start/%s|scn=%s|hist=%s|nat=%s|sig=%d,%d|faults=%d@%d|%s", pa->prop, scn_names[pa->scn], hist_names[pa->hist],
          pa->nat >= 0 ? nat_names[pa->nat] : "-", pa->mask_id, pa->table_id, pa->faults, pa->fault_window, pa->real_exec ? "real" : "emul");
  hx_begin();
  vk_set_hang_hook(start_hang);
  apply_sigcfg(pa->mask_id, pa->table_id, sigdesc, sizeof sigdesc);
  scn_build(pa->scn, pa->hist, &sc);
  snprintf(key, sizeof key, "h_start|scn=%s", scn_names[pa->scn]);

  /* natural failures modify the scenario */
  char longpath[6000];
  uint8_t *big = NULL;
  const char *nat_argv[2] = { NULL, NULL };
  if (pa->nat >= 0) {
    snprintf(key, sizeof key, "h_start|nat=%s", nat_names[pa->nat]);
    switch (pa->nat) {
      case N_MISSING: nat_argv[0] = "/nonexistent-dir/prog"; sc.argv = nat_argv; break;
      case N_DIRECTORY: nat_argv[0] = vk_scratch; sc.argv = nat_argv; break;
      case N_NOEXEC: { int fd = open("noexec.txt", O_WRONLY | O_CREAT, 0644); close(fd); nat_argv[0] = "./noexec.txt"; sc.argv = nat_argv; break; }
      case N_TOOLONG:
        memset(longpath, 'a', sizeof longpath - 1);
        longpath[0] = '/';
        longpath[sizeof longpath - 1] = 0;
        nat_argv[0] = longpath; sc.argv = nat_argv; break;
      case N_WD_MISSING: sc.o.working_directory = "no-such-dir"; break;
      case N_WD_FILE: { int fd = open("plainfile", O_WRONLY | O_CREAT, 0644); close(fd); sc.o.working_directory = "plainfile"; break; }
      case N_PATH_NODIR: sc.o.redirect.out.path = "no-such-dir/out.txt"; break;
      case N_PATH_ISDIR: sc.o.redirect.out.path = "."; break;
      case N_INPUT_BIG:
        big = calloc(1, 70000);
        sc.o.input.data = big;
        sc.o.input.size = 70000;
        break;
      case N_BARE_MISSING: nat_argv[0] = "no-such-program-xyz"; sc.argv = nat_argv; break;
      /* a stream sent to the descriptor of its own number, which the caller has closed: nothing to install, and nothing else would notice */
      case N_OWN_HANDLE_CLOSED:
        close(1);
        sc.o.redirect.out.type = REPROC_REDIRECT_HANDLE;
        sc.o.redirect.out.handle = 1;
        break;
      /* a daemon without descriptors 0-2 and nothing piped: every pipe the library makes for itself lands on 0-2, where the child installs its streams */
      case N_MISSING_NOSTD:
      case N_WD_MISSING_NOSTD:
        close(0); close(1); close(2);
        sc.o.redirect.discard = true;
        sc.o.redirect.err.type = REPROC_REDIRECT_DEFAULT;
        if (pa->nat == N_MISSING_NOSTD) { nat_argv[0] = "/nonexistent-dir/prog"; sc.argv = nat_argv; }
        else sc.o.working_directory = "no-such-dir";
        break;
      case N_OWN_FILE_CLOSED:
        close(2);
        sc.o.redirect.err.type = REPROC_REDIRECT_FILE;
        sc.o.redirect.err.file = stderr;
        break;
    }
  }

  struct vk_fdsnap before;
  vk_fd_snapshot(&before);
  struct ident_obj user_before[3], file_before;
  for (int i = 0; i < 3; i++) ident_obj_from_fd(&user_before[i], sc.user_fds[i]);
  if (sc.user_file) ident_obj_from_fd(&file_before, fileno(sc.user_file));
  struct procstate st0, st1;

  reproc_t *p = NULL;
  int status = -1;
  if (pa->hist == H_RUNEX) {
    /* the whole life cycle inside one library call */
    int cnt[3] = { 0, 0, 0 };
    reproc_sink s1 = { count_sink, cnt }, s2 = { count_sink, cnt };
    vk_script(sc.script);
    vk_script(sc.script);
    if (sc.ex.type[0] == REPROC_REDIRECT_PIPE && !sc.input) {
      /* run_ex cannot write: give the child its input up front */
      sc.o.input.data = (const uint8_t *) "ab";
      sc.o.input.size = 2;
    }
    vk_faults_armed = pa->fault_window > 0;
    take_state(&st0);
    hx_last_api = vk_api_begin("run_ex(%s)", scn_names[pa->scn]);
    int r = reproc_run_ex(sc.argv, sc.o, s1, s2);
    vk_api_end(r);
    take_state(&st1);
    vk_faults_armed = 0;
    vk_obs("run_ex=%s out=%d err=%d", hx_errname(r), cnt[1], cnt[2]);
    int errs[4], sides = 0;
    int ninj = any_injected(hx_last_api, errs, &sides);
    if (r >= 0 && ninj == 0 && r != sc.exit_code)
      vk_violation("C16", "run-status", key, "run_ex returned %d, the child exited with %d", r, sc.exit_code);
    goto ledgers;
  }

  p = hx_new();
  if (!p) vk_finish(OUT_INFRA, "reproc_new failed");
  int first_deadline = 0;
  if (pa->nat >= 0 && !sc.o.deadline) { first_deadline = 2; sc.o.deadline = first_deadline; } /* this start is going to fail; the restart (a freshly built scenario) has no deadline */
  vk_script(sc.script);
  vk_script(sc.script); /* for a second start after a failed one */
  vk_faults_armed = pa->fault_window > 0;
  take_state(&st0);
  g_in_start = 1;
  int r = hx_start(p, sc.argv, sc.o);
  if (vk_side != 0) hx_forked_side(p, r);
  g_in_start = 0;
  int start_api = hx_last_api;
  take_state(&st1);
  vk_faults_armed = pa->fault_window == 2;
  scn_post_path_identity(&sc);

  /* C12: caller untouched on every return path */
  {
    char why[160];
    /* the property exempts a failure of the restoring call itself: any parent-side mask call after the first one */
    int restoring_call_failed = 0, nmask = 0;
    for (int i = 0; i < S->nevents; i++) {
      struct vk_event *e = &S->ev[i];
      if (e->api != start_api || e->call != C_SIGMASK || e->side != 0) continue;
      if (nmask++ > 0 && e->injected) restoring_call_failed = 1;
    }
    if (restoring_call_failed) { /* nothing to demand */ }
    else if (!same_state(&st0, &st1, why, sizeof why))
      vk_violation("C12", "parent-state-unchanged", key, "after start returned %s: %s", r > 0 ? "success" : hx_errname(r), why);
    else vk_hit(CL_PARENT_STATE_SAME);
  }

  int errs[4] = { 0 }, sides = 0;
  int ninj = any_injected(start_api, errs, &sides);
  if (sides & 1) vk_hit(CL_FAULT_PARENT);
  if (sides & 2) vk_hit(CL_FAULT_CHILD);

  if (r < 0) {
    /* C04 failure branch */
    int explained = 0;
    for (int i = 0; i < ninj && i < 4; i++)
      if (errs[i] > 0 && r == -errs[i]) explained = 1;
    for (int i = 0; i < ninj && i < 4; i++)
      if (errs[i] < 0 && r == -EMFILE) explained = 1; /* the documented refusal of a huge descriptor limit */
    if (pa->nat >= 0) {
      if (r == -nat_errno[pa->nat]) { explained = 1; vk_hit(CL_NATURAL); }
      else if (!ninj)
        vk_violation("C04", "natural-failure-errno", key, "start returned %s, expected -%s", hx_errname(r), strerror(nat_errno[pa->nat]));
    }
    if (!explained && !(pa->nat >= 0))
      vk_violation("C04", "failure-cause", key, "start returned %s but no call failed with that error (%d fault(s) injected: %d %d)", hx_errname(r),
                   ninj, errs[0], errs[1]);
    for (int i = 0; i < vk_nchildren; i++)
      if (vk_children[i].state != CH_REAPED)
        vk_violation("C04", "failed-start-leaves-child", key, "start returned %s but child %d (pid %d) is still %s", hx_errname(r), i,
                     vk_children[i].pid, vk_children[i].state == CH_RUNNING ? "running" : "unreaped");
    if (waitpid(-1, NULL, WNOHANG) != -1 || errno != ECHILD)
      vk_violation("C04", "failed-start-leaves-child", key, "a child process exists after start returned %s", hx_errname(r));
    int saved = vk_faults_armed;
    vk_faults_armed = 0;
    int pr = hx_pid(p);
    if (pr != REPROC_EINVAL) vk_violation("C04", "failed-start-handle-state", key, "reproc_pid returned %s after a failed start", hx_errname(pr));
    {
      /* C06: a handle that is not running refers to no process: terminate, kill and wait are refused and nothing reaches kill()/waitpid() */
      int bk = vk_bad_kills, bw = vk_bad_waits;
      int tr = hx_terminate(p), tapi = hx_last_api, kr = hx_kill(p), kapi = hx_last_api, wr = hx_wait(p, 0), wapi = hx_last_api;
      int ncalls = vk_count_calls(tapi, C_KILL) + vk_count_calls(kapi, C_KILL) + vk_count_calls(wapi, C_WAITPID) + vk_count_calls(wapi, C_KILL);
      if (tr != REPROC_EINVAL || kr != REPROC_EINVAL || wr != REPROC_EINVAL || ncalls || vk_bad_kills != bk || vk_bad_waits != bw)
        vk_violation("C06", "not-running-handle-signals-nothing", key, "after a failed start terminate/kill/wait returned %s/%s/%s and made %d kill/waitpid call(s) (%d of them aimed at something that is no child of the handle)",
                     hx_errname(tr), hx_errname(kr), hx_errname(wr), ncalls, vk_bad_kills - bk + vk_bad_waits - bw);
    }
    vk_hit(CL_START_FAILED_CLEAN);
    /* the handle must be startable again */
    struct scn sc2;
    scn_release(&sc);
    scn_build(pa->scn, pa->hist, &sc2);
    sc = sc2;
    {
      /* user objects were re-created: re-take the baseline (the first snapshot is still compared through the ledgers) */
      for (int i = 0; i < 3; i++) ident_obj_from_fd(&user_before[i], sc.user_fds[i]);
      if (sc.user_file) ident_obj_from_fd(&file_before, fileno(sc.user_file));
    }
    g_in_start = 1;
    r = hx_start(p, sc.argv, sc.o);
    if (vk_side != 0) hx_forked_side(p, r);
    g_in_start = 0;
    scn_post_path_identity(&sc);
    if (r < 0) {
      vk_violation("C04", "restart-after-failure", key, "a second start with good options returned %s", hx_errname(r));
      goto destroy;
    }
    vk_hit(CL_RESTART_OK);
    if (first_deadline && !sc.o.deadline && pa->scn != SC_FORK) {
      /* the failed attempt carried a deadline, this one carries none: nothing of the first may have stayed behind in the handle */
      int armed = vk_faults_armed;
      vk_faults_armed = 0;
      vk_advance(first_deadline + 3);
      reproc_event_source src = { p, REPROC_EVENT_EXIT, 0 };
      int pr = hx_poll(&src, 1, 0);
      if (pr > 0 && (src.events & REPROC_EVENT_DEADLINE))
        vk_violation("C04", "restart-after-failure", key, "a start without deadline, after a failed start with one on the same handle, reports that deadline as expired");
      vk_faults_armed = armed;
    }
    vk_faults_armed = saved;
    ninj = 0;
  } else if (pa->nat >= 0 && !ninj) {
    vk_violation("C04", "natural-failure-errno", key, "start succeeded although the launch cannot work (%s)", nat_names[pa->nat]);
  }

  /* C04 success branch */
  for (int i = 0; i < S->nevents; i++)
    if (S->ev[i].api == start_api && S->ev[i].injected == EBADF && (S->ev[i].call == C_FILENO || (S->ev[i].call == C_FCNTL && S->ev[i].side == 0))) sc.ex.parent_may_be_null = 1; /* "not open" is the one answer that means: no such stream */
  {
    int pid = reproc_pid(p);
    struct vk_child *c = vk_nchildren ? &vk_children[vk_nchildren - 1] : NULL;
    if (pid <= 0 || !c || c->pid != pid) {
      vk_violation("C04", "success-pid", key, "start reported success but reproc_pid is %d and the last forked child is %d", pid, c ? c->pid : -1);
      vk_violation("C06", "handle-pid", key, "a handle reported as started refers to pid %d", pid);
      goto destroy;
    }
    if (pa->scn == SC_FORK && (c->state == CH_LIBPEND || c->state == CH_LIBRUN || c->state == CH_RUNNING)) goto after_ident;
    if (!c->have_hello) {
      vk_violation("C04", "success-without-program", key, "start reported success but the requested program never ran (child state %d)", c->state);
      goto after_ident;
    }
    if (pa->scn != SC_FORK && pa->nat < 0) {
      if (c->hello.image == IMG_FORKED) vk_violation("C04", "success-without-program", key, "the child is not the requested program image");
      int armed = vk_faults_armed;
      vk_faults_armed = 0;
      if (ident_check("C04", key, c, &sc.ex) == 0 && ident_api_check("C04", key, p, &sc.ex) == 0) vk_hit(ninj ? CL_START_OK_DESPITE_FAULT : CL_START_OK);
      vk_faults_armed = armed;
      /* C12: the child starts clean */
      if (c->hello.blk & 0xfffffffeull) vk_violation("C12", "child-mask-empty", key, "child starts with blocked signals %llx (%s)", (unsigned long long) c->hello.blk, sigdesc);
      else if (c->hello.ign & 0xfffffffeull) vk_violation("C12", "child-dispositions-default", key, "child starts with ignored signals %llx (%s)", (unsigned long long) c->hello.ign, sigdesc);
      else if (c->hello.cgt & 0xfffffffeull) vk_violation("C12", "child-dispositions-default", key, "child starts with caught signals %llx (%s)", (unsigned long long) c->hello.cgt, sigdesc);
      else vk_hit(CL_CHILD_SIG_CLEAN);
      if (pa->scn == SC_WORKDIR) {
        char want[600];
        snprintf(want, sizeof want, "%s/sub", hx_workdir);
        if (strcmp(c->hello.cwd, want)) vk_violation("C03", "cwd", key, "child runs in %s, expected %s", c->hello.cwd, want);
      }
    }
  }
after_ident:;
  struct vk_child *c = &vk_children[vk_nchildren - 1];
  uint8_t buf[64];
  int got_out = 0, got_err = 0;
  switch (pa->hist) {
    case H_DESTROY:
      break;
    case H_WAIT:
      status = hx_wait(p, REPROC_INFINITE);
      break;
    case H_ROUNDTRIP: {
      if (sc.ex.type[0] == REPROC_REDIRECT_PIPE && !sc.input) {
        int w = hx_write(p, (const uint8_t *) "ab", 2);
        if (w != 2 && !(vk_faults_armed) && !sc.o.nonblocking) vk_violation("C04", "roundtrip", key, "write of 2 bytes returned %s", hx_errname(w));
      }
      hx_close(p, REPROC_STREAM_IN);
      for (int s = 1; s <= 2; s++) {
        if (sc.ex.type[s] != REPROC_REDIRECT_PIPE) continue;
        for (int it = 0; it < 12; it++) {
          int n;
          if (sc.o.nonblocking) {
            reproc_event_source src = { p, s == 1 ? REPROC_EVENT_OUT : REPROC_EVENT_ERR, 0 };
            int pr = hx_poll(&src, 1, REPROC_INFINITE);
            if (pr < 0) break;
          }
          n = hx_read(p, s == 1 ? REPROC_STREAM_OUT : REPROC_STREAM_ERR, buf, sizeof buf);
          if (n < 0) break;
          if (s == 1) got_out += n; else got_err += n;
        }
      }
      status = hx_wait(p, REPROC_INFINITE);
      if (!vk_faults_armed && ninj == 0) {
        int want_out = sc.out_bytes + (sc.merged ? sc.err_bytes : 0), want_err = sc.merged ? 0 : (sc.ex.type[2] == REPROC_REDIRECT_PIPE ? sc.err_bytes : 0);
        if (status != sc.exit_code || got_out != want_out || got_err != want_err || (sc.in_bytes && (int) c->in_n != sc.in_bytes))
          vk_violation("C04", "roundtrip", key, "after a successful start: status %s (want %d), out %d/%d, err %d/%d, child read %zu/%d", hx_errname(status),
                       sc.exit_code, got_out, want_out, got_err, want_err, c->in_n, sc.in_bytes);
        else vk_hit(CL_ROUNDTRIP_OK);
      }
      break;
    }
    case H_DRAIN: {
      int cnt[3] = { 0, 0, 0 };
      reproc_sink s1 = { count_sink, cnt }, s2 = { count_sink, cnt };
      hx_close(p, REPROC_STREAM_IN);
      hx_last_api = vk_api_begin("drain()");
      int dr = reproc_drain(p, s1, s2);
      vk_api_end(dr);
      vk_obs("drain=%s out=%d err=%d", hx_errname(dr), cnt[1], cnt[2]);
      reproc_stop_actions sa = { { REPROC_STOP_WAIT, REPROC_INFINITE }, { REPROC_STOP_NOOP, 0 }, { REPROC_STOP_NOOP, 0 } };
      status = hx_stop(p, sa);
      break;
    }
    case H_DRAIN_STRING: {
      /* the documented way to collect output: string sinks, freed by the caller whatever drain returned */
      char *so = NULL, *se = NULL;
      hx_close(p, REPROC_STREAM_IN);
      hx_last_api = vk_api_begin("drain(strings)");
      int dr = reproc_drain(p, reproc_sink_string(&so), reproc_sink_string(&se));
      vk_api_end(dr);
      vk_obs("drain(strings)=%s out=%zu err=%zu", hx_errname(dr), so ? strlen(so) : 0, se ? strlen(se) : 0);
      reproc_free(so);
      reproc_free(se);
      reproc_stop_actions sa = { { REPROC_STOP_WAIT, REPROC_INFINITE }, { REPROC_STOP_NOOP, 0 }, { REPROC_STOP_NOOP, 0 } };
      status = hx_stop(p, sa);
      break;
    }
    case H_TERMKILL: {
      {
        /* starting a running handle again is refused - and must leave it as it is: what follows still reaches the child of the first start */
        int armed = vk_faults_armed;
        vk_faults_armed = 0;
        int r2 = hx_start(p, sc.argv, sc.o);
        vk_faults_armed = armed;
        if (pa->scn != SC_FORK && r2 != REPROC_EINVAL) vk_violation("C14", "start-twice-rejected", key, "a second start on a running handle returned %s", hx_errname(r2));
      }
      int t = hx_terminate(p);
      (void) t;
      status = hx_wait(p, REPROC_INFINITE);
      int k1 = hx_kill(p), k1api = hx_last_api;
      int t2 = hx_terminate(p), t2api = hx_last_api;
      if (status >= 0) {
        if (k1 != 0 || t2 != 0 || vk_count_calls(k1api, C_KILL) || vk_count_calls(t2api, C_KILL))
          vk_violation("C06", "after-reap-noop", key, "after a successful wait kill/terminate returned %s/%s and made %d kill call(s)", hx_errname(k1),
                       hx_errname(t2), vk_count_calls(k1api, C_KILL) + vk_count_calls(t2api, C_KILL));
        else vk_hit(CL_AFTER_REAP_NOOP);
      }
      break;
    }
    case H_LATEPOLL: {
      /* the caller was busy past the deadline: polls and a drain that find it already expired, then the child is put down */
      vk_advance(5);
      reproc_event_source src = { p, REPROC_EVENT_OUT | REPROC_EVENT_EXIT, 0 };
      hx_poll(&src, 1, 0);
      hx_poll(&src, 1, REPROC_INFINITE);
      int cnt[3] = { 0, 0, 0 };
      reproc_sink s1 = { count_sink, cnt }, s2 = { count_sink, cnt };
      hx_last_api = vk_api_begin("drain()");
      int dr = reproc_drain(p, s1, s2);
      vk_api_end(dr);
      vk_obs("late drain=%s", hx_errname(dr));
      hx_kill(p);
      status = hx_wait(p, REPROC_INFINITE);
      break;
    }
    case H_KILLWAIT: {
      hx_kill(p);
      status = hx_wait(p, REPROC_INFINITE);
      int w2 = hx_wait(p, 0);
      if (status >= 0 && w2 != status) vk_violation("C01", "status-stable", key, "second wait returned %s after %d", hx_errname(w2), status);
      break;
    }
  }
destroy:
  hx_destroy(p);
  p = NULL;
ledgers:
  vk_faults_armed = 0;
  /* C05: ledgers. A child may legitimately be left only if its wait never succeeded and destroy's policy timed out - not in these histories:
   * every history ends with the default policy on a child that exits by itself or dies on SIGTERM. */
  {
    int before_v = S->nviol;
    /* user objects first: they must still be open and the same */
    int intact = 1;
    for (int i = 0; i < 3; i++) {
      if (sc.user_fds[i] < 0) continue;
      struct ident_obj now;
      ident_obj_from_fd(&now, sc.user_fds[i]);
      if (!now.valid || now.ino != user_before[i].ino) {
        vk_violation("C05", "user-handle-intact", key, "the user-supplied handle %d is %s after destroy", sc.user_fds[i], now.valid ? "another object" : "closed");
        intact = 0;
      }
    }
    if (sc.user_file) {
      struct ident_obj now;
      ident_obj_from_fd(&now, fileno(sc.user_file));
      if (!now.valid || now.ino != file_before.ino) {
        vk_violation("C05", "user-file-intact", key, "the user-supplied FILE is no longer open on its file after destroy");
        intact = 0;
      }
    }
    if (intact) vk_hit(CL_USER_OBJECTS_INTACT);
    /* the helper's redirect targets were created inside the work dir, not descriptors: compare tables */
    int all_reaped_expected = 1;
    for (int i = 0; i < vk_nchildren; i++) {
      struct vk_child *ch = &vk_children[i];
      /* a child whose wait faulted may remain: the property only covers children that start failed on or that were successfully waited for */
      if (ch->state != CH_REAPED && ch->state != CH_DEAD_PREHELLO && !(ch->reaps == 0 && ninj == 0 && !pa->faults)) all_reaped_expected = 0;
    }
    hx_check_ledgers("C05", key, &before, pa->faults == 0 && all_reaped_expected);
    if (S->nviol == before_v) vk_hit(CL_LEDGERS_CLEAN);
    scn_release(&sc);
  }
  if (vk_bad_kills || vk_bad_waits)
    vk_violation("C06", "kill-wait-target", key, "%d kill and %d waitpid call(s) targeted something other than the live, unreaped child of the handle",
                 vk_bad_kills, vk_bad_waits);
  else vk_hit(CL_NO_BAD_TARGET);
  free(big);
}

/* ---- configuration spaces ---- */

/* C04: scenarios x {no fault, single faults (quick) / pairs (thorough)} during start + natural failures (real exec) */
static long c04_n(int tier) { (void) tier; return NSCN * 2 + 1 + NNAT; }
static void c04_run(int tier, long cfg)
{
  struct params pa = { "C04", 0, H_ROUNDTRIP, -1, 0, 0, 0, 0, 0, 0, 0 };
  if (cfg < NSCN * 2 + 1) {
    pa.scn = (int) (cfg % NSCN);
    if (cfg == NSCN * 2) { pa.scn = SC_FORK; pa.fork_child_first = 1; pa.faults = tier ? 2 : 1; pa.fault_window = 1; }
    else if (cfg < NSCN) { pa.faults = tier ? 2 : 1; pa.fault_window = 1; }
    else { pa.real_exec = 1; } /* the same scenarios once with the real exec, no faults: binds the emulation */
  } else {
    pa.nat = (int) (cfg - NSCN * 2 - 1);
    pa.scn = SC_DEFAULT;
    pa.real_exec = 1;
    pa.faults = tier ? 2 : 1; /* a natural failure plus an injected one: the pairs that matter most */
    pa.fault_window = 1;
  }
  body(&pa);
}

/* C05: scenarios x histories x faults over the whole history */
static long c05_n(int tier) { (void) tier; return (long) NSCN * NHIST; }
static void c05_run(int tier, long cfg)
{
  struct params pa = { "C05", (int) (cfg % NSCN), (int) (cfg / NSCN), -1, 0, 0, tier ? 2 : 1, 2, 0, 0, 0 };
  if (tier && pa.hist == H_RUNEX) pa.faults = 1; /* pairs over run_ex are covered by drain+start pairs */
  body(&pa);
}

/* C06: start under every single fault, continued with terminate/kill/wait/destroy; plus fault-free histories with scheduling */
static long c06_n(int tier) { (void) tier; return (long) NSCN * 2 * 2; }
static void c06_run(int tier, long cfg)
{
  int scn = (int) (cfg % NSCN), h = (int) ((cfg / NSCN) % 2), mode = (int) (cfg / NSCN / 2);
  struct params pa = { "C06", scn, h ? H_KILLWAIT : H_TERMKILL, -1, 0, 0, 0, 0, 0, 0, 0 };
  if (mode == 0) { pa.faults = tier ? 2 : 1; pa.fault_window = 1; }
  else { pa.sched = 2; }
  body(&pa);
}

/* C12: parent signal configurations x scenarios; real exec without faults (child side), emulated with faults (parent side) */
static long c12_n(int tier) { return (long) NSCN * NMASKS * NTABLES + (long) NSCN * (tier ? NMASKS * NTABLES : NTABLES); }
static void c12_run(int tier, long cfg)
{
  struct params pa = { "C12", 0, H_KILLWAIT, -1, 0, 0, 0, 0, 0, 0, 0 };
  long na = (long) NSCN * NMASKS * NTABLES;
  if (cfg < na) {
    pa.scn = (int) (cfg % NSCN);
    pa.mask_id = (int) ((cfg / NSCN) % NMASKS);
    pa.table_id = (int) (cfg / NSCN / NMASKS);
    pa.real_exec = 1;
  } else {
    long r = cfg - na;
    pa.scn = (int) (r % NSCN);
    long k = r / NSCN;
    if (tier) { pa.mask_id = (int) (k % NMASKS); pa.table_id = (int) (k / NMASKS); }
    else { pa.table_id = (int) k; pa.mask_id = (int) (k % NMASKS); }
    pa.faults = 1;
    pa.fault_window = 1;
  }
  if (pa.scn == SC_FORK) pa.fork_child_first = 1; /* the forked side runs on to where start returns 0: its signal state is examined there */
  body(&pa);
}

const struct hx_harness h_c04 = { "C04", "h_c04", c04_n, c04_run, start_clauses, NULL };
const struct hx_harness h_c05 = { "C05", "h_c05", c05_n, c05_run, start_clauses, NULL };
const struct hx_harness h_c06 = { "C06", "h_c06", c06_n, c06_run, start_clauses, NULL };
const struct hx_harness h_c12 = { "C12", "h_c12", c12_n, c12_run, start_clauses, NULL };
