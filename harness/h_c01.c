/* C01 — exit status exact, stable, child reaped exactly once. DESIGN.md section 3/C01. */
#include "hx.h"

#include <errno.h>
#include <fcntl.h>
#include <signal.h>
#include <stdio.h>
#include <string.h>
#include <sys/stat.h>
#include <sys/wait.h>

enum { E_CODE, E_SIG, E_LIBTERM, E_HANDLER, E_IGNORE, E_HUP_FIRST };
static const int term_sigs[] = { 1, 2, 3, 4, 5, 6, 7, 8, 9, 10, 11, 12, 13, 14, 15, 16, 24, 25, 26, 27, 29, 30, 31 };
#define NSIGS ((int) (sizeof term_sigs / sizeof term_sigs[0]))
#define NENDINGS (256 + NSIGS + 4)

struct ending {
  int kind, v;
};

static struct ending ending_of(int i)
{
  struct ending e;
  if (i < 256) { e.kind = E_CODE; e.v = i; }
  else if (i < 256 + NSIGS) { e.kind = E_SIG; e.v = term_sigs[i - 256]; }
  else { e.kind = E_LIBTERM + (i - 256 - NSIGS); e.v = 0; }
  return e;
}

static const int rep_endings[] = { 0, 1, 255, 256 + 14 /* SIGTERM */, 256 + 8 /* SIGKILL */, 256 + 5 /* SIGABRT */,
                                   256 + NSIGS, 256 + NSIGS + 1, 256 + NSIGS + 2, 256 + NSIGS + 3 };
#define NREP 10

enum { OP_WAIT0, OP_WAIT2, OP_WAITINF, OP_TERM, OP_KILL, OP_STOP_W0, OP_STOP_T1_KINF, OP_STOP_KINF, NOPS };
static const char *const op_names[] = { "wait0", "wait2", "waitinf", "term", "kill", "stop{w0}", "stop{t1,kinf}", "stop{kinf}" };

static const int canon[3][4] = { { OP_WAITINF, -1, -1, -1 }, { OP_WAIT0, OP_WAIT2, OP_WAITINF, -1 }, { OP_STOP_T1_KINF, -1, -1, -1 } };

static long nhist(int depth)
{
  long n = 0, p = 1;
  for (int d = 1; d <= depth; d++) { p *= NOPS; n += p; }
  return n;
}

static void decode_hist(long idx, int *ops, int *n)
{
  long p = NOPS;
  int d = 1;
  while (idx >= p) { idx -= p; p *= NOPS; d++; }
  *n = d;
  for (int i = d - 1; i >= 0; i--) { ops[i] = (int) (idx % NOPS); idx /= NOPS; }
}

#define NTWOH 2
#define NDLC 2
#define NPOLLW 2
static long c01_nconfigs(int tier)
{
  return (long) NENDINGS * 3 + (long) NREP * nhist(tier ? 4 : 3) + NTWOH + NDLC + NPOLLW;
}

enum { CL_STATUS_EXACT, CL_STATUS_STABLE, CL_NO_SYSCALL_AFTER, CL_REAPED_ONCE, CL_ENDED_IN_BLOCK, CL_FAULT_SURFACED, CL_HANG_OK, CL_TIMEOUT_SEEN };
static const char *const c01_clauses[] = { "status-exact", "status-stable", "cached-no-syscall", "reaped-once", "ended-inside-blocked-wait", "wait-fault-surfaced", "legit-hang", "timeout-seen", NULL };

static reproc_t *P;
static int first_status = -1;
static struct vk_child *CH;

static void check_status_result(const char *what, int r, int api)
{
  struct vk_child *c = CH;
  char key[120];
  snprintf(key, sizeof key, "h_c01|op=%s", what);
  if (r >= 0 && c && c->state == CH_REAPED && c->reaps == 0) {
    vk_violation("C01", "status-invented", key, "%s returned status %d although the child was reaped by somebody else (waitpid answered ECHILD): the library cannot know its status", what, r);
    return;
  }
  if (r >= 0) {
    if (!c || (c->state != CH_REAPED)) {
      vk_violation("C01", "status-while-running", key, "%s returned status %d but the child (state %d) has not been reaped", what, r,
                   c ? c->state : -1);
      return;
    }
    if (r != c->expect_status)
      vk_violation("C01", "status-exact", key, "%s returned %d, the child ended with %d", what, r, c->expect_status);
    else vk_hit(CL_STATUS_EXACT);
    if (first_status >= 0) {
      if (r != first_status) vk_violation("C01", "status-stable", key, "%s returned %d after %d had been returned", what, r, first_status);
      else vk_hit(CL_STATUS_STABLE);
      int n = vk_count_calls(api, C_POLL) + vk_count_calls(api, C_WAITPID) + vk_count_calls(api, C_KILL);
      if (n) vk_violation("C01", "cached-no-syscall", key, "%s made %d poll/waitpid/kill call(s) although the status was already known", what, n);
      else vk_hit(CL_NO_SYSCALL_AFTER);
    } else {
      first_status = r;
      struct vk_event *e = vk_last_event(api, C_POLL);
      if (e && e->blocked && e->woke_child) vk_hit(CL_ENDED_IN_BLOCK);
    }
  } else {
    struct vk_event *inj = NULL;
    for (int i = 0; i < S->nevents; i++)
      if (S->ev[i].api == api && S->ev[i].injected > 0 && S->ev[i].side == 0) inj = &S->ev[i];
    if (r == REPROC_ETIMEDOUT) { vk_hit(CL_TIMEOUT_SEEN); return; }
    if (inj && r == -inj->injected) { vk_hit(CL_FAULT_SURFACED); return; }
    if (c && c->state == CH_REAPED && c->reaps == 0) return; /* reaped by somebody else earlier: no status can ever be had, any error will do */
    vk_violation("C01", "unexpected-error", key, "%s returned %s with no timeout and no failing call behind it", what, hx_errname(r));
  }
}

static void c01_hang(const char *where)
{
  if (!strcmp(where, "poll") && CH && CH->state == CH_RUNNING) {
    vk_hit(CL_HANG_OK);
    vk_obs("hang(%s) while the child cannot end", where);
    return;
  }
  vk_violation("C01", "unexpected-hang", "h_c01", "blocked forever in %s (child state %d)", where, CH ? CH->state : -1);
}

/* two handles: the first was started with start-up input (its stdin end is closed by the library at once) and is then closed/destroyed while
 * the second one's child still runs; the caller holds one descriptor of its own in between. Whatever the first handle does with descriptor
 * numbers it no longer owns must not cost the second one its status. */
static void c01_two_handles(int k)
{
  memset(&vk_cfg, 0, sizeof vk_cfg);
  vk_cfg.sched_on = 1;
  vk_cfg.sched_bound = 1;
  vk_cfg.vlimit = 32;
  vk_cfg.hello_lite = 1;
  hx_desc("h_c01|two-handles|first=%s", k ? "close(in),destroy" : "destroy");
  hx_begin();
  vk_set_hang_hook(c01_hang);
  first_status = -1;
  static const uint8_t in[2] = { 'a', 'b' };
  reproc_options oa, ob;
  memset(&oa, 0, sizeof oa);
  memset(&ob, 0, sizeof ob);
  oa.input.data = in;
  oa.input.size = 2;
  ob.redirect.parent = true;
  vk_script("R2 X1");
  vk_script("X7");
  reproc_t *a = hx_new();
  vk_cfg.sched_on = 0;
  int r = hx_start(a, hx_helper_argv(), oa);
  if (r < 0) vk_finish(OUT_INFRA, "first start failed: %d", r);
  int mine = open("callers-own", O_RDWR | O_CREAT, 0644);
  P = hx_new();
  r = hx_start(P, hx_helper_argv(), ob);
  if (r < 0 || vk_nchildren != 2) vk_finish(OUT_INFRA, "second start failed: %d", r);
  vk_cfg.sched_on = 1;
  CH = &vk_children[1];
  struct vk_child *ca = &vk_children[0];
  /* the first child ends and its handle is given up */
  for (int g = 0; g < 8 && ca->state == CH_RUNNING && vk_child_enabled(ca); g++) vk_child_step(ca);
  int wa = hx_wait(a, REPROC_INFINITE);
  if (wa != 1) vk_violation("C01", "status-exact", "h_c01|two-handles", "the first handle's wait returned %s, its child exits with 1", hx_errname(wa));
  if (k) hx_close(a, REPROC_STREAM_IN);
  hx_destroy(a);
  /* the second child is still running: no status yet, and no blocking reap */
  r = hx_wait(P, 0);
  check_status_result("wait(0) on the second handle", r, hx_last_api);
  if (vk_reap_blocked) vk_violation("C01", "reap-blocked", "h_c01|two-handles", "a blocking reap was attempted while the second child was still running");
  for (int g = 0; g < 8 && CH->state == CH_RUNNING && vk_child_enabled(CH); g++) vk_child_step(CH);
  r = hx_wait(P, REPROC_INFINITE);
  check_status_result("wait(INFINITE) on the second handle", r, hx_last_api);
  if (r != 7) vk_violation("C01", "status-exact", "h_c01|two-handles", "the second handle's wait returned %s, its child exits with 7", hx_errname(r));
  hx_destroy(P);
  struct stat st;
  if (fstat(mine, &st) < 0) vk_violation("C05", "no-foreign-close", "h_c01|two-handles", "the caller's own descriptor was closed");
  close(mine);
  if (CH->reaps != 1) vk_violation("C01", "reaped-once", "h_c01|two-handles", "the second child was reaped %d times", CH->reaps);
  else vk_hit(CL_REAPED_ONCE);
  if (vk_bad_waits || vk_bad_kills) vk_violation("C06", "kill-wait-target", "h_c01|two-handles", "%d kill and %d waitpid call(s) off target", vk_bad_kills, vk_bad_waits);
  if (vk_double_closes || vk_foreign_closes) vk_violation("C05", "no-double-close", "h_c01|two-handles", "%d double and %d foreign close(s)", vk_double_closes, vk_foreign_closes);
}

/* a handle with a deadline that has passed: the status, once it exists, is what every wait and stop returns - also the until-deadline ones */
static void c01_deadline(int k)
{
  memset(&vk_cfg, 0, sizeof vk_cfg);
  vk_cfg.sched_on = 1;
  vk_cfg.sched_bound = 1;
  vk_cfg.vlimit = 32;
  vk_cfg.hello_lite = 1;
  hx_desc("h_c01|deadline-passed|%s", k ? "status-returned-before" : "child-ended,not-yet-waited-for");
  hx_begin();
  vk_set_hang_hook(c01_hang);
  first_status = -1;
  reproc_options o;
  memset(&o, 0, sizeof o);
  o.deadline = 2;
  vk_script("X7");
  P = hx_new();
  vk_cfg.sched_on = 0;
  int r = hx_start(P, hx_helper_argv(), o);
  vk_cfg.sched_on = 1;
  if (r < 0 || vk_nchildren != 1) vk_finish(OUT_INFRA, "start failed: %d", r);
  CH = &vk_children[0];
  for (int g = 0; g < 8 && CH->state == CH_RUNNING && vk_child_enabled(CH); g++) vk_child_step(CH);
  if (k) { r = hx_wait(P, REPROC_INFINITE); check_status_result("wait(INFINITE)", r, hx_last_api); }
  vk_advance(5);
  r = hx_wait(P, REPROC_DEADLINE);
  check_status_result("wait(DEADLINE) after the deadline", r, hx_last_api);
  if (r != 7) vk_violation("C01", "status-exact", "h_c01|deadline-passed", "wait(DEADLINE) after the deadline returned %s, the child has exited with 7", hx_errname(r));
  reproc_stop_actions a = { { REPROC_STOP_WAIT, REPROC_DEADLINE }, { REPROC_STOP_NOOP, 0 }, { REPROC_STOP_NOOP, 0 } };
  r = hx_stop(P, a);
  check_status_result("stop{wait DEADLINE} after the deadline", r, hx_last_api);
  r = hx_wait(P, 0);
  check_status_result("wait(0)", r, hx_last_api);
  hx_destroy(P);
  if (CH->reaps != 1) vk_violation("C01", "reaped-once", "h_c01|deadline-passed", "the child was reaped %d times", CH->reaps);
  else vk_hit(CL_REAPED_ONCE);
}

/* a handle without any stream pipe on the parent's side (everything discarded, or every stream closed): the exit is first learnt through
 * reproc_poll, the status is asked for afterwards */
static void c01_poll_then_wait(int k)
{
  memset(&vk_cfg, 0, sizeof vk_cfg);
  vk_cfg.sched_on = 1;
  vk_cfg.sched_bound = 1;
  vk_cfg.vlimit = 32;
  vk_cfg.hello_lite = 1;
  hx_desc("h_c01|poll-exit-then-wait|%s", k ? "streams-closed-by-the-caller" : "streams-discarded");
  hx_begin();
  vk_set_hang_hook(c01_hang);
  first_status = -1;
  reproc_options o;
  memset(&o, 0, sizeof o);
  if (!k) o.redirect.discard = true;
  vk_script("X7");
  P = hx_new();
  vk_cfg.sched_on = 0;
  int r = hx_start(P, hx_helper_argv(), o);
  vk_cfg.sched_on = 1;
  if (r < 0 || vk_nchildren != 1) vk_finish(OUT_INFRA, "start failed: %d", r);
  CH = &vk_children[0];
  if (k) { hx_close(P, REPROC_STREAM_IN); hx_close(P, REPROC_STREAM_OUT); hx_close(P, REPROC_STREAM_ERR); }
  for (int round = 0; round < 2; round++) {
    reproc_event_source src = { P, REPROC_EVENT_EXIT, 0 };
    r = hx_poll(&src, 1, REPROC_INFINITE);
    if (r != 1 || !(src.events & REPROC_EVENT_EXIT)) vk_violation("C09", "exit-reported", "h_c01|poll-exit-then-wait", "poll %d for the exit returned %s with events %x", round, hx_errname(r), (unsigned) src.events);
  }
  r = hx_wait(P, 0);
  check_status_result("wait(0) after poll reported the exit", r, hx_last_api);
  if (r != 7) vk_violation("C01", "status-exact", "h_c01|poll-exit-then-wait", "wait(0) after poll reported the exit returned %s, the child exited with 7", hx_errname(r));
  reproc_stop_actions a = { { REPROC_STOP_WAIT, 2 }, { REPROC_STOP_NOOP, 0 }, { REPROC_STOP_NOOP, 0 } };
  r = hx_stop(P, a);
  check_status_result("stop{wait 2}", r, hx_last_api);
  hx_destroy(P);
  if (CH->reaps != 1) vk_violation("C01", "reaped-once", "h_c01|poll-exit-then-wait", "the child was reaped %d times", CH->reaps);
  else vk_hit(CL_REAPED_ONCE);
  siginfo_t si;
  memset(&si, 0, sizeof si);
  int w = waitid(P_PID, (id_t) CH->pid, &si, WEXITED | WNOHANG | WNOWAIT);
  if (!(w < 0 && errno == ECHILD)) vk_violation("C01", "no-zombie", "h_c01|poll-exit-then-wait", "the child is still waitable");
}

static void c01_run(int tier, long cfg)
{
  struct ending en;
  int ops[4], nops = 0;
  long na = (long) NENDINGS * 3;
  if (cfg >= na + (long) NREP * nhist(tier ? 4 : 3) + NTWOH + NDLC) { c01_poll_then_wait((int) (cfg - na - (long) NREP * nhist(tier ? 4 : 3) - NTWOH - NDLC)); return; }
  if (cfg >= na + (long) NREP * nhist(tier ? 4 : 3) + NTWOH) { c01_deadline((int) (cfg - na - (long) NREP * nhist(tier ? 4 : 3) - NTWOH)); return; }
  if (cfg >= na + (long) NREP * nhist(tier ? 4 : 3)) { c01_two_handles((int) (cfg - na - (long) NREP * nhist(tier ? 4 : 3))); return; }
  if (cfg < na) {
    en = ending_of((int) (cfg / 3));
    const int *h = canon[cfg % 3];
    while (nops < 4 && h[nops] >= 0) { ops[nops] = h[nops]; nops++; }
  } else {
    long r = cfg - na;
    long nh = nhist(tier ? 4 : 3);
    en = ending_of(rep_endings[r / nh]);
    decode_hist(r % nh, ops, &nops);
  }
  memset(&vk_cfg, 0, sizeof vk_cfg);
  vk_cfg.sched_on = 1;
  vk_cfg.sched_bound = 2;
  vk_cfg.vlimit = 32;
  vk_cfg.hello_lite = 1;
  if (cfg < na || (tier && nops <= 3)) {
    /* faults: all endings x canonical histories, and (thorough) every history up to depth 3; depth 4 is explored without faults */
    vk_cfg.faults_on = 1;
    vk_cfg.fault_bound = 1;
    vk_cfg.fault_calls = (1ull << C_WAITPID) | (1ull << C_POLL) | (1ull << C_KILL);
    vk_cfg.foreign_reaper = 1;
  }
  char hs[100] = "";
  for (int i = 0; i < nops; i++) { strcat(hs, op_names[ops[i]]); strcat(hs, i + 1 < nops ? "," : ""); }
  char es[32];
  switch (en.kind) {
    case E_CODE: snprintf(es, sizeof es, "exit%d", en.v); break;
    case E_SIG: snprintf(es, sizeof es, "sig%d", en.v); break;
    case E_LIBTERM: snprintf(es, sizeof es, "dies-on-term"); break;
    case E_HANDLER: snprintf(es, sizeof es, "term-handler-then-dies"); break;
    case E_IGNORE: snprintf(es, sizeof es, "ignores-term"); break;
    default: snprintf(es, sizeof es, "descriptors-close-before-it-is-waitable");
  }
  hx_desc("h_c01|ending=%s|hist=%s", es, hs);
  hx_begin();
  vk_set_hang_hook(c01_hang);
  {
    /* a free run can be compared with the default stepped schedule unless it depends on how fast a signal kills: a signalling
     * operation followed by a zero-timeout look at the child */
    int sig_seen = 0, racy = 0;
    for (int i = 0; i < nops; i++) {
      if (sig_seen && (ops[i] == OP_WAIT0 || ops[i] == OP_STOP_W0)) racy = 1;
      if (ops[i] == OP_TERM || ops[i] == OP_KILL) sig_seen = 1;
    }
    S->free_run_ok = !racy;
  }
  char script[64] = "";
  switch (en.kind) {
    case E_CODE: snprintf(script, sizeof script, "X%d", en.v); break;
    case E_SIG: snprintf(script, sizeof script, "K%d", en.v); break;
    case E_LIBTERM: break;
    case E_HANDLER: snprintf(script, sizeof script, "S15:H ; T15"); break;
    case E_IGNORE: snprintf(script, sizeof script, "S15:I ;"); break;
    case E_HUP_FIRST: snprintf(script, sizeof script, "Z X9"); break; /* the window every exiting process goes through, made wide */
  }
  vk_script(script);
  P = hx_new();
  reproc_options o;
  memset(&o, 0, sizeof o);
  int r = hx_start(P, hx_helper_argv(), o);
  if (r < 0 || vk_nchildren != 1) vk_finish(OUT_INFRA, "start failed in C01 harness: %d", r);
  CH = &vk_children[0];
  vk_faults_armed = 1;
  for (int i = 0; i < nops; i++) {
    int api;
    switch (ops[i]) {
      case OP_WAIT0: r = hx_wait(P, 0); api = hx_last_api; check_status_result("wait(0)", r, api); break;
      case OP_WAIT2: r = hx_wait(P, 2); api = hx_last_api; check_status_result("wait(2)", r, api); break;
      case OP_WAITINF: r = hx_wait(P, REPROC_INFINITE); api = hx_last_api; check_status_result("wait(INFINITE)", r, api); break;
      case OP_TERM:
      case OP_KILL:
        r = ops[i] == OP_TERM ? hx_terminate(P) : hx_kill(P);
        if (first_status >= 0 && (r != 0 || vk_count_calls(hx_last_api, C_KILL)))
          vk_violation("C06", "after-reap-noop", "h_c01", "%s after a successful wait returned %s and made %d kill call(s)", op_names[ops[i]],
                       hx_errname(r), vk_count_calls(hx_last_api, C_KILL));
        break;
      case OP_STOP_W0: {
        reproc_stop_actions a = { { REPROC_STOP_WAIT, 0 }, { REPROC_STOP_NOOP, 0 }, { REPROC_STOP_NOOP, 0 } };
        r = hx_stop(P, a); api = hx_last_api; check_status_result("stop{wait 0}", r, api); break;
      }
      case OP_STOP_T1_KINF: {
        reproc_stop_actions a = { { REPROC_STOP_TERMINATE, 1 }, { REPROC_STOP_KILL, REPROC_INFINITE }, { REPROC_STOP_NOOP, 0 } };
        r = hx_stop(P, a); api = hx_last_api; check_status_result("stop{terminate 1,kill INFINITE}", r, api); break;
      }
      case OP_STOP_KINF: {
        reproc_stop_actions a = { { REPROC_STOP_KILL, REPROC_INFINITE }, { REPROC_STOP_NOOP, 0 }, { REPROC_STOP_NOOP, 0 } };
        r = hx_stop(P, a); api = hx_last_api; check_status_result("stop{kill INFINITE}", r, api); break;
      }
    }
  }
  vk_faults_armed = 0;
  /* closure: make the child end, collect the status, check stability and the reap count */
  if (vk_cfg.passthru) {
    /* free run: the helper follows its script by itself; it ends on its own unless it waits for a SIGTERM that was never sent */
    int term_sent = 0;
    for (int i = 0; i < CH->nsigs; i++) term_sent |= CH->sigs[i].sig == SIGTERM || CH->sigs[i].sig == SIGKILL;
    int ends_by_itself = en.kind == E_CODE || en.kind == E_SIG || en.kind == E_HUP_FIRST || (en.kind == E_HANDLER && term_sent);
    if (!ends_by_itself && CH->state != CH_REAPED) {
      kill(CH->pid, SIGKILL);
      if (CH->expect_status < 0) CH->expect_status = 128 + SIGKILL;
    }
  } else if (CH->state == CH_RUNNING) {
    for (int g = 0; g < 8 && CH->state == CH_RUNNING && vk_child_enabled(CH); g++) vk_child_step(CH);
    if (CH->state == CH_RUNNING) {
      /* harness-side kill, outside the library */
      kill(CH->pid, SIGKILL);
      siginfo_t si;
      waitid(P_PID, (id_t) CH->pid, &si, WEXITED | WNOWAIT);
      CH->state = CH_ZOMBIE;
      CH->expect_status = 128 + SIGKILL;
      CH->exit_time = vk_now();
      vk_log("  (harness killed the child)");
    }
  }
  int sched_save = vk_cfg.sched_on;
  vk_cfg.sched_on = 0;
  r = hx_wait(P, REPROC_INFINITE);
  check_status_result("final wait(INFINITE)", r, hx_last_api);
  int foreign = CH->state == CH_REAPED && CH->reaps == 0;
  if (r < 0 && !foreign) vk_violation("C01", "final-wait", "h_c01", "wait(INFINITE) on an ended child returned %s", hx_errname(r));
  r = hx_wait(P, 0);
  check_status_result("repeated wait(0)", r, hx_last_api);
  reproc_stop_actions a = { { REPROC_STOP_TERMINATE, 0 }, { REPROC_STOP_KILL, 0 }, { REPROC_STOP_NOOP, 0 } };
  r = hx_stop(P, a);
  check_status_result("repeated stop{terminate 0,kill 0}", r, hx_last_api);
  vk_cfg.sched_on = sched_save;
  hx_destroy(P);
  if (foreign) { /* nothing left for the library to reap */ }
  else if (CH->reaps != 1) vk_violation("C01", "reaped-once", "h_c01", "the child was reaped %d times", CH->reaps);
  else vk_hit(CL_REAPED_ONCE);
  siginfo_t si;
  memset(&si, 0, sizeof si);
  int w = waitid(P_PID, (id_t) CH->pid, &si, WEXITED | WNOHANG | WNOWAIT);
  if (!(w < 0 && errno == ECHILD)) vk_violation("C01", "no-zombie", "h_c01", "the child is still waitable after the status was returned");
  if (vk_bad_waits) vk_violation("C01", "second-reap", "h_c01", "%d waitpid call(s) on an already reaped or foreign pid", vk_bad_waits);
  if (vk_reap_blocked && en.kind != E_HUP_FIRST) vk_violation("C01", "reap-blocked", "h_c01", "a blocking reap was attempted while the child was still running");
  /* C06 clauses over the same histories */
  if (vk_bad_kills || vk_bad_waits)
    vk_violation("C06", "kill-wait-target", "h_c01", "%d kill and %d waitpid call(s) targeted something other than the live, unreaped child of the handle",
                 vk_bad_kills, vk_bad_waits);
  for (int i = 0; i < CH->nsigs; i++)
    if (CH->reap_time && CH->sigs[i].child_state == CH_REAPED)
      vk_violation("C06", "signal-after-reap", "h_c01", "signal %d was sent after the child had been reaped", CH->sigs[i].sig);
}

const struct hx_harness h_c01 = { "C01", "h_c01", c01_nconfigs, c01_run, c01_clauses, NULL, 0, { 0, 0 }, 0, 23 };
