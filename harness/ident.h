#ifndef IDENT_H
#define IDENT_H
#include "hx.h"

#ifdef __cplusplus
extern "C" {
#endif

struct ident_obj {
  int valid;
  uint64_t dev, ino, rdev;
};

struct ident_expect {
  int type[3]; /* effective REPROC_REDIRECT_x per stream */
  struct ident_obj obj[3];
  int parent_may_be_null; /* a fileno() failure was injected: PARENT may legitimately fall back to the null device */
  int parent_closed[3]; /* PIPE whose parent end is legitimately gone already (start-up input) */
};

void ident_obj_from_fd(struct ident_obj *o, int fd);
void ident_obj_from_path(struct ident_obj *o, const char *path);
int ident_check(const char *prop, const char *key, const struct vk_child *c, const struct ident_expect *ex);
int ident_api_check(const char *prop, const char *key, reproc_t *p, const struct ident_expect *ex);
int ident_parent_fd_for_stream(const struct vk_child *c, int stream);
const char *ident_type_name(int t);

#ifdef __cplusplus
}
#endif

#endif
