/* h_thread.c — C20: documented thread-safety. Cooperative scheduler over the intercepted calls (one thread runs at a
 * time, a switch away from a thread that could continue is a preemption), children stepped on demand. DESIGN.md 3/C20. */
#include "hx.h"
#include "ident.h"

#include <errno.h>
#include <fcntl.h>
#include <stdio.h>
#include <stdlib.h>
#include <string.h>
#include <sys/stat.h>
#include <unistd.h>

enum { CL_B_OK, CL_A_OK, CL_STRERROR_OK, CL_EOF_AFTER_CLOSE, CL_INHERIT_OK, CL_PREEMPT0, CL_PREEMPT1, CL_PREEMPT2, CL_FORK_BETWEEN_PIPE_AND_CLOEXEC, CL_D_OK };
static const char *const c20_clauses[] = { "own-bytes-and-status", "reader-writer-echo-complete", "strerror-per-thread", "eof-right-after-own-close",
                                           "child-inherits-only-its-own", "zero-preemptions", "one-preemption", "two-preemptions",
                                           "fork-while-other-thread-holds-raw-pipe", "drained-own-bytes-and-status", NULL };

static char key[160];
#define CAP 4096

/* ---------------------------------------------------------------- (B) independent children from independent threads */
struct tb {
  int id;
  reproc_t *p;
  struct vk_child *c;
  int status, nread, nwritten, ok;
};

static int raw_pipe_open_elsewhere; /* set when a fork happens while another thread holds a pipe without close-on-exec */

static int extra_inherited(const struct vk_child *c, char *what, size_t n)
{
  int extra = 0;
  for (int i = 0; i < c->hello.nfd; i++) {
    const struct vc_fdinfo *f = &c->hello.fds[i];
    if (f->fd <= 2) continue;
    extra++;
    if (extra > 1 || !S_ISFIFO(f->mode)) snprintf(what, n, "descriptor %d (mode %o, ino %llu)", f->fd, f->mode, (unsigned long long) f->ino);
  }
  return extra;
}

static void *body_b(void *arg)
{
  struct tb *t = arg;
  char script[32];
  snprintf(script, sizeof script, "E X%d", 10 + t->id);
  t->p = reproc_new();
  reproc_options o;
  memset(&o, 0, sizeof o);
  /* scripts are handed out in fork order: remember which child is ours by pid */
  vk_script(script);
  vk_api_seq = 1000 + t->id;
  int r = reproc_start(t->p, hx_helper_argv(), o);
  if (r < 0) { vk_violation("C20", "concurrent-start", key, "thread %d: start returned %s", t->id, hx_errname(r)); return NULL; }
  int pid = reproc_pid(t->p);
  t->c = vk_child_by_pid(pid);
  if (!t->c || !t->c->have_hello) { vk_violation("C20", "concurrent-start", key, "thread %d: no child / no hello for pid %d", t->id, pid); return NULL; }
  /* whichever script the child got, its exit code tells; make it ours */
  t->c->steps[t->c->nsteps - 1].a = 10 + t->id;
  char what[100] = "";
  int extra = extra_inherited(t->c, what, sizeof what);
  if (extra != 1) vk_violation("C11", "extra-descriptor-inherited", key, "thread %d: its child was started with %d extra descriptor(s) besides the exit handle: %s", t->id, extra - 1, what);
  else vk_hit(CL_INHERIT_OK);
  uint8_t data[8], buf[64];
  for (int i = 0; i < 5; i++) data[i] = (uint8_t) (0x40 + t->id * 16 + i);
  r = reproc_write(t->p, data, 5);
  t->nwritten = r > 0 ? r : 0;
  reproc_close(t->p, REPROC_STREAM_IN);
  /* its own child must now see end-of-file without anybody else moving */
  for (int guard = 0; guard < 8 && t->c->state == CH_RUNNING && t->c->pos == 0; guard++) {
    if (!vk_child_enabled(t->c)) break;
    vk_child_step(t->c);
  }
  if (t->c->pos == 0 && t->c->state == CH_RUNNING)
    vk_violation("C20", "eof-after-own-close", key, "thread %d closed its child's stdin but the child does not see end-of-file (another process holds the pipe's write end)", t->id);
  else vk_hit(CL_EOF_AFTER_CLOSE);
  int guard = 0;
  for (;;) {
    r = reproc_read(t->p, REPROC_STREAM_OUT, buf + t->nread, sizeof buf - (size_t) t->nread);
    if (r <= 0 || ++guard > 20) break;
    t->nread += r;
  }
  t->status = reproc_wait(t->p, REPROC_INFINITE);
  int same = t->nread == 5 && memcmp(buf, data, 5) == 0;
  if (!same) vk_violation("C20", "own-output", key, "thread %d: wrote 5 bytes to its child, read back %d (%s)", t->id, t->nread, same ? "same" : "different");
  else if (t->status != 10 + t->id) vk_violation("C20", "own-status", key, "thread %d: wait returned %s, its child exits with %d", t->id, hx_errname(t->status), 10 + t->id);
  else { t->ok = 1; vk_hit(CL_B_OK); }
  reproc_destroy(t->p);
  vk_api_seq = 0;
  return NULL;
}

static int run_b_close_faults;

static void run_b(int nthreads, int bound, int real_exec)
{
  memset(&vk_cfg, 0, sizeof vk_cfg);
  vk_cfg.sched_on = 1;
  vk_cfg.sched_bound = bound;
  vk_cfg.vlimit = 40;
  vk_cfg.real_exec = real_exec;
  if (run_b_close_faults) {
    /* one close() of the library is interrupted (the descriptor is gone all the same, as on Linux): what a thread does about it must not
     * touch a number the other thread has been handed in the meantime */
    vk_cfg.faults_on = 1;
    vk_cfg.fault_bound = 1;
    vk_cfg.fault_calls = 1ull << C_CLOSE;
    vk_cfg.total_bound = 2;
  }
  snprintf(key, sizeof key, "h_c20|independent-children|threads=%d|preemptions<=%d|%s%s", nthreads, bound, real_exec ? "real" : "emul", run_b_close_faults ? "|one-interrupted-close" : "");
  hx_desc("%s", key);
  snprintf(key, sizeof key, "h_c20|independent-children%s", run_b_close_faults ? "|one-interrupted-close" : "");
  hx_begin();
  vk_faults_armed = run_b_close_faults;
  static struct tb t[3];
  memset(t, 0, sizeof t);
  int idx[3];
  for (int i = 0; i < nthreads; i++) { t[i].id = i + 1; idx[i] = vk_thread_create(body_b, &t[i]); }
  for (int i = 0; i < nthreads; i++) vk_thread_join(idx[i]);
  int used = S->used[K_SCHED];
  vk_hit(used == 0 ? CL_PREEMPT0 : used == 1 ? CL_PREEMPT1 : CL_PREEMPT2);
  vk_obs("threads done: %d %d %d", t[0].ok, t[1].ok, t[2].ok);
  if (vk_double_closes || vk_foreign_closes)
    vk_violation("C20", "cross-talk-close", key, "with %d threads the library closed %d descriptor(s) twice and %d that were not its own (a number freed too early can be another thread's new descriptor)",
                 nthreads, vk_double_closes, vk_foreign_closes);
  if (vk_fd_ledger_open_count() || vk_heap_live_count())
    vk_violation("C05", "ledgers-after-threads", key, "%d descriptor(s), %d block(s) left", vk_fd_ledger_open_count(), vk_heap_live_count());
}

/* ---------------------------------------------------------------- (D) independent children drained from independent threads */
struct td {
  int id;
  reproc_t *p;
  struct vk_child *c;
  uint8_t data[8];
  int nread, wrong, closed_calls;
};

static int sink_d(REPROC_STREAM stream, const uint8_t *buffer, size_t size, void *context)
{
  struct td *t = context;
  if (stream != REPROC_STREAM_OUT) return 0;
  if (size == 0) { t->closed_calls++; return 0; }
  /* a sink is user code: it may be preempted before it has looked at the chunk it was handed */
  vk_sched_point("user");
  for (size_t i = 0; i < size; i++)
    if (t->nread + (int) i >= 5 || buffer[i] != t->data[t->nread + (int) i]) t->wrong++;
  t->nread += (int) size;
  return 0;
}

static void *body_d(void *arg)
{
  struct td *t = arg;
  char script[32];
  snprintf(script, sizeof script, "E X%d", 10 + t->id);
  t->p = reproc_new();
  reproc_options o;
  memset(&o, 0, sizeof o);
  vk_script(script);
  vk_api_seq = 3000 + t->id;
  int r = reproc_start(t->p, hx_helper_argv(), o);
  if (r < 0) { vk_violation("C20", "concurrent-start", key, "thread %d: start returned %s", t->id, hx_errname(r)); return NULL; }
  t->c = vk_child_by_pid(reproc_pid(t->p));
  if (!t->c) { vk_violation("C20", "concurrent-start", key, "thread %d: no child", t->id); return NULL; }
  t->c->steps[t->c->nsteps - 1].a = 10 + t->id;
  for (int i = 0; i < 5; i++) t->data[i] = (uint8_t) (0x40 + t->id * 16 + i);
  reproc_write(t->p, t->data, 5);
  reproc_close(t->p, REPROC_STREAM_IN);
  for (int guard = 0; guard < 8 && t->c->state == CH_RUNNING && t->c->pos == 0; guard++) {
    if (!vk_child_enabled(t->c)) break;
    vk_child_step(t->c);
  }
  reproc_sink sk = { sink_d, t };
  r = reproc_drain(t->p, sk, REPROC_SINK_NULL);
  int st = reproc_wait(t->p, REPROC_INFINITE);
  if (r != 0) vk_violation("C20", "own-output", key, "thread %d: drain returned %s", t->id, hx_errname(r));
  else if (t->wrong || t->nread != 5) vk_violation("C20", "drained-own-output", key, "thread %d: its sink was handed %d byte(s), %d of them not what its own child wrote (another thread's chunk)", t->id, t->nread, t->wrong);
  else if (st != 10 + t->id) vk_violation("C20", "own-status", key, "thread %d: wait returned %s, its child exits with %d", t->id, hx_errname(st), 10 + t->id);
  else vk_hit(CL_D_OK);
  reproc_destroy(t->p);
  vk_api_seq = 0;
  return NULL;
}

static void run_d(int bound)
{
  memset(&vk_cfg, 0, sizeof vk_cfg);
  vk_cfg.sched_on = 1;
  vk_cfg.sched_bound = bound;
  vk_cfg.vlimit = 40;
  vk_cfg.hello_lite = 1;
  snprintf(key, sizeof key, "h_c20|independent-children,drained|threads=2|preemptions<=%d", bound);
  hx_desc("%s", key);
  snprintf(key, sizeof key, "h_c20|independent-children,drained");
  hx_begin();
  static struct td t[2];
  memset(t, 0, sizeof t);
  int idx[2];
  for (int i = 0; i < 2; i++) { t[i].id = i + 1; idx[i] = vk_thread_create(body_d, &t[i]); }
  for (int i = 0; i < 2; i++) vk_thread_join(idx[i]);
  int used = S->used[K_SCHED];
  vk_hit(used == 0 ? CL_PREEMPT0 : used == 1 ? CL_PREEMPT1 : CL_PREEMPT2);
  vk_obs("drain threads done: %d/%d %d/%d", t[0].nread, t[0].wrong, t[1].nread, t[1].wrong);
  if (vk_fd_ledger_open_count() || vk_heap_live_count())
    vk_violation("C05", "ledgers-after-threads", key, "%d descriptor(s), %d block(s) left", vk_fd_ledger_open_count(), vk_heap_live_count());
}

/* ---------------------------------------------------------------- (E) one thread's start fails after the fork while another thread's child runs and exits */
static void *body_f(void *arg)
{
  (void) arg;
  static const char *const missing[] = { "/nonexistent/c20-program", NULL };
  reproc_t *p = reproc_new();
  reproc_options o;
  memset(&o, 0, sizeof o);
  vk_script("E X99"); /* same shape as the other thread's: scripts are handed out in fork order */
  vk_api_seq = 4001;
  for (int round = 0; round < 2; round++) {
    int r = reproc_start(p, missing, o);
    if (r != -ENOENT) vk_violation("C20", "concurrent-failed-start", key, "start of a missing program returned %s", hx_errname(r));
    if (round == 0) vk_script("E X99");
  }
  reproc_destroy(p);
  vk_api_seq = 0;
  return NULL;
}

static void run_e(int bound)
{
  memset(&vk_cfg, 0, sizeof vk_cfg);
  vk_cfg.sched_on = 1;
  vk_cfg.sched_bound = bound;
  vk_cfg.vlimit = 40;
  snprintf(key, sizeof key, "h_c20|life-cycle+failing-starts|preemptions<=%d", bound);
  hx_desc("%s", key);
  snprintf(key, sizeof key, "h_c20|life-cycle+failing-starts");
  hx_begin();
  static struct tb t[1];
  memset(t, 0, sizeof t);
  t[0].id = 1;
  int a = vk_thread_create(body_b, &t[0]);
  int b = vk_thread_create(body_f, NULL);
  vk_thread_join(a);
  vk_thread_join(b);
  int used = S->used[K_SCHED];
  vk_hit(used == 0 ? CL_PREEMPT0 : used == 1 ? CL_PREEMPT1 : CL_PREEMPT2);
  vk_obs("life cycle beside failing starts: %d", t[0].ok);
  if (vk_bad_waits || vk_bad_kills)
    vk_violation("C20", "cross-talk-reap", key, "%d waitpid and %d kill call(s) did not name the caller's own live child (a wait for any child takes another thread's child)", vk_bad_waits, vk_bad_kills);
  if (vk_double_closes || vk_foreign_closes)
    vk_violation("C20", "cross-talk-close", key, "the library closed %d descriptor(s) twice and %d that were not its own", vk_double_closes, vk_foreign_closes);
  if (vk_fd_ledger_open_count() || vk_heap_live_count())
    vk_violation("C05", "ledgers-after-threads", key, "%d descriptor(s), %d block(s) left", vk_fd_ledger_open_count(), vk_heap_live_count());
}

/* ---------------------------------------------------------------- (G) short life cycles from two threads, one close() of the library interrupted */
static int g_err_to_out; /* the children get their stderr merged into their stdout: one descriptor serves two streams inside the library */

static void *body_g(void *arg)
{
  struct tb *t = arg;
  t->p = reproc_new();
  reproc_options o;
  memset(&o, 0, sizeof o);
  if (g_err_to_out == 1) o.redirect.err.type = REPROC_REDIRECT_STDOUT;
  static const uint8_t some_input[2] = { 'i', 'n' };
  if (g_err_to_out == 2 && t->id == 1) { o.input.data = some_input; o.input.size = 2; } /* one of the two gets start-up input: its stdin end is closed by the library at once */
  vk_script("");
  vk_api_seq = 5000 + t->id;
  int r = reproc_start(t->p, hx_helper_argv(), o);
  if (r < 0) {
    /* an interrupted close inside start may surface as its error: then nothing must be left of the attempt */
    reproc_destroy(t->p);
    vk_api_seq = 0;
    return NULL;
  }
  reproc_close(t->p, REPROC_STREAM_IN);
  reproc_close(t->p, REPROC_STREAM_OUT);
  reproc_kill(t->p);
  t->status = reproc_wait(t->p, REPROC_INFINITE);
  if (t->status != 128 + 9) vk_violation("C20", "own-status", key, "thread %d: wait returned %s after kill", t->id, hx_errname(t->status));
  else { t->ok = 1; vk_hit(CL_B_OK); }
  reproc_destroy(t->p);
  vk_api_seq = 0;
  return NULL;
}

static void run_g(int err_to_out)
{
  g_err_to_out = err_to_out;
  memset(&vk_cfg, 0, sizeof vk_cfg);
  vk_cfg.sched_on = 1;
  vk_cfg.sched_bound = 1;
  vk_cfg.vlimit = 40;
  vk_cfg.hello_lite = 1;
  /* one close() of the library is interrupted (the descriptor is gone all the same, as on Linux): what a thread does about it must not touch a
   * number the other thread has been handed in the meantime */
  if (!err_to_out) {
    vk_cfg.faults_on = 1;
    vk_cfg.fault_bound = 1;
    vk_cfg.fault_calls = 1ull << C_CLOSE;
    vk_cfg.total_bound = 2;
  }
  snprintf(key, sizeof key, "h_c20|short-life-cycles|threads=2|preemptions<=1|%s", err_to_out == 2 ? "one-with-start-up-input" : err_to_out ? "stderr-to-stdout" : "one-interrupted-close");
  hx_desc("%s", key);
  snprintf(key, sizeof key, "h_c20|short-life-cycles|%s", err_to_out == 2 ? "one-with-start-up-input" : err_to_out ? "stderr-to-stdout" : "one-interrupted-close");
  hx_begin();
  vk_faults_armed = !err_to_out;
  static struct tb t[2];
  memset(t, 0, sizeof t);
  int idx[2];
  for (int i = 0; i < 2; i++) { t[i].id = i + 1; idx[i] = vk_thread_create(body_g, &t[i]); }
  for (int i = 0; i < 2; i++) vk_thread_join(idx[i]);
  vk_faults_armed = 0;
  int used = S->used[K_SCHED];
  vk_hit(used == 0 ? CL_PREEMPT0 : used == 1 ? CL_PREEMPT1 : CL_PREEMPT2);
  vk_obs("short cycles done: %d %d", t[0].ok, t[1].ok);
  if (vk_double_closes || vk_foreign_closes)
    vk_violation("C20", "cross-talk-close", key, "the library closed %d descriptor(s) twice and %d that were not its own (a number freed by an interrupted close can be another thread's new descriptor)",
                 vk_double_closes, vk_foreign_closes);
}

/* ---------------------------------------------------------------- (H) one child: a thread writes to it while another waits for it */
static reproc_t *PA;
static struct vk_child *CA;
static int h_wres, h_mres;

static void *body_hw(void *arg)
{
  (void) arg;
  vk_api_seq = 6001;
  static const uint8_t d[3] = { 'x', 'y', 'z' };
  h_wres = reproc_write(PA, d, 3);
  vk_api_seq = 0;
  return NULL;
}

static void *body_hm(void *arg)
{
  (void) arg;
  vk_api_seq = 6002;
  h_mres = reproc_wait(PA, REPROC_INFINITE);
  vk_api_seq = 0;
  return NULL;
}

static void run_h(int bound)
{
  memset(&vk_cfg, 0, sizeof vk_cfg);
  vk_cfg.sched_on = 1;
  vk_cfg.sched_bound = bound;
  vk_cfg.vlimit = 40;
  vk_cfg.hello_lite = 1;
  snprintf(key, sizeof key, "h_c20|writer+waiter|preemptions<=%d", bound);
  hx_desc("%s", key);
  snprintf(key, sizeof key, "h_c20|writer+waiter");
  hx_begin();
  vk_script("X5"); /* exits without ever reading its stdin */
  PA = hx_new();
  reproc_options o;
  memset(&o, 0, sizeof o);
  vk_cfg.sched_on = 0;
  int r = hx_start(PA, hx_helper_argv(), o);
  vk_cfg.sched_on = 1;
  if (r < 0) vk_finish(OUT_INFRA, "start failed: %d", r);
  CA = &vk_children[0];
  h_wres = h_mres = -9999;
  int tw = vk_thread_create(body_hw, NULL);
  int tm = vk_thread_create(body_hm, NULL);
  vk_thread_join(tw);
  vk_thread_join(tm);
  /* the write either went into the pipe (3) or found the reader gone; the wait has the child's own status; nobody touched a descriptor twice */
  if (h_wres != 3 && h_wres != REPROC_EPIPE) vk_violation("C20", "writer-beside-waiter", key, "write returned %s while another thread was waiting for the same child", hx_errname(h_wres));
  else if (h_mres != 5) vk_violation("C20", "own-status", key, "wait returned %s, the child exits with 5", hx_errname(h_mres));
  else vk_hit(CL_A_OK);
  if (vk_double_closes || vk_foreign_closes)
    vk_violation("C20", "cross-talk-close", key, "%d double and %d foreign close(s) with a writer and a waiter on one child", vk_double_closes, vk_foreign_closes);
  int used = S->used[K_SCHED];
  vk_hit(used == 0 ? CL_PREEMPT0 : used == 1 ? CL_PREEMPT1 : CL_PREEMPT2);
  hx_destroy(PA);
}

/* ---------------------------------------------------------------- (A) reader and writer on one child */
static reproc_t *PA;
static struct vk_child *CA;
static uint8_t wdata[CAP + 16];
static int wtotal, rtotal, rbad;

static void *body_w(void *arg)
{
  (void) arg;
  vk_api_seq = 2001;
  int r = reproc_write(PA, wdata, 3);
  if (r > 0) wtotal += r;
  int off = wtotal, want = CAP + 1, guard = 0;
  while (off < 3 + want && guard++ < 16) {
    r = reproc_write(PA, wdata + off, (size_t) (3 + want - off));
    if (r <= 0) break;
    off += r;
  }
  wtotal = off;
  reproc_close(PA, REPROC_STREAM_IN);
  vk_api_seq = 0;
  return NULL;
}

static void *body_r(void *arg)
{
  (void) arg;
  vk_api_seq = 2002;
  uint8_t buf[512];
  int guard = 0;
  for (;;) {
    int r = reproc_read(PA, REPROC_STREAM_OUT, buf, sizeof buf);
    if (r <= 0 || ++guard > 200) break;
    for (int i = 0; i < r; i++)
      if (buf[i] != wdata[rtotal + i]) rbad++;
    rtotal += r;
  }
  vk_api_seq = 0;
  return NULL;
}

static void run_a(int bound)
{
  memset(&vk_cfg, 0, sizeof vk_cfg);
  vk_cfg.sched_on = 1;
  vk_cfg.sched_bound = bound;
  vk_cfg.vlimit = 40;
  vk_cfg.hello_lite = 1;
  snprintf(key, sizeof key, "h_c20|reader+writer|preemptions<=%d", bound);
  hx_desc("%s", key);
  snprintf(key, sizeof key, "h_c20|reader+writer");
  hx_begin();
  for (size_t i = 0; i < sizeof wdata; i++) wdata[i] = (uint8_t) (i * 7 + 3);
  wtotal = rtotal = rbad = 0;
  vk_script("E X21");
  PA = hx_new();
  reproc_options o;
  memset(&o, 0, sizeof o);
  vk_cfg.sched_on = 0;
  int r = hx_start(PA, hx_helper_argv(), o);
  vk_cfg.sched_on = 1;
  if (r < 0) vk_finish(OUT_INFRA, "start failed: %d", r);
  CA = &vk_children[0];
  for (int i = 0; i < 2; i++) {
    int f = ident_parent_fd_for_stream(CA, i);
    if (f >= 0) fcntl(f, F_SETPIPE_SZ, CAP);
  }
  int tw = vk_thread_create(body_w, NULL);
  int tr = vk_thread_create(body_r, NULL);
  vk_thread_join(tw);
  vk_thread_join(tr);
  int st = hx_wait(PA, REPROC_INFINITE);
  if (rbad || rtotal != wtotal || wtotal != 3 + CAP + 1)
    vk_violation("C20", "reader-writer", key, "writer thread wrote %d bytes, reader thread got %d (%d wrong)", wtotal, rtotal, rbad);
  else if (st != 21) vk_violation("C20", "reader-writer-status", key, "wait returned %s", hx_errname(st));
  else vk_hit(CL_A_OK);
  int used = S->used[K_SCHED];
  vk_hit(used == 0 ? CL_PREEMPT0 : used == 1 ? CL_PREEMPT1 : CL_PREEMPT2);
  hx_destroy(PA);
}

/* ---------------------------------------------------------------- (C) error strings per thread */
static void *body_s(void *arg)
{
  int code = (int) (intptr_t) arg;
  char expect[256];
  const char *e = strerror_r(code, expect, sizeof expect); /* GNU variant returns the string */
  for (int round = 0; round < 2; round++) {
    const char *s = reproc_strerror(-code);
    char first[256];
    snprintf(first, sizeof first, "%s", s);
    vk_sched_point("user"); /* let the other thread ask for its string */
    if (strcmp(s, first) != 0 || strcmp(first, e) != 0)
      vk_violation("C20", "strerror-thread-local", key, "thread asked for the text of errno %d, got <%s>, and after another thread's call the same pointer reads <%s>", code, first, s);
    else vk_hit(CL_STRERROR_OK);
  }
  return NULL;
}

static void run_c(void)
{
  memset(&vk_cfg, 0, sizeof vk_cfg);
  vk_cfg.sched_on = 1;
  vk_cfg.sched_bound = 3;
  snprintf(key, sizeof key, "h_c20|strerror");
  hx_desc("%s", key);
  hx_begin();
  int a = vk_thread_create(body_s, (void *) (intptr_t) EPIPE);
  int b = vk_thread_create(body_s, (void *) (intptr_t) ENOMEM);
  vk_thread_join(a);
  vk_thread_join(b);
}

static long c20_n(int tier) { return tier ? 11 : 10; }
static void c20_run(int tier, long cfg)
{
  switch (cfg) {
    case 0: run_b(2, tier ? 2 : 1, 0); break;
    case 1: run_a(tier ? 3 : 2); break;
    case 2: run_c(); break;
    case 3: run_b(2, 1, 1); break;
    case 4: run_d(tier ? 2 : 1); break;
    case 5: run_e(tier ? 2 : 1); break;
    case 6: run_g(0); break;
    case 7: run_h(tier ? 3 : 2); break;
    case 8: run_g(1); break;
    case 9: run_g(2); break;
    case 10: run_b(3, 0, 0); break; /* three threads: every free alternative (blocked calls, joins, exits), no preemption */
  }
}

const struct hx_harness h_c20 = { "C20", "h_c20", c20_n, c20_run, c20_clauses, NULL, 0, { 0, 0 }, 1 };
