// h_stop_cxx.cpp — C15 through reproc++: `reproc::process` hands the stop policy of its options to the C layer at start and its destructor
// delegates to reproc_destroy. Destroying a C++ process object whose child still runs must therefore run exactly the policy that was given.
#include "hx.h"

#include <reproc++/reproc.hpp>

#include <csignal>
#include <cstdio>
#include <cstring>

namespace {

char key[200];

struct pol { reproc::stop a[3]; int t[3]; };
const pol pols[] = {
  { { reproc::stop::wait, reproc::stop::terminate, reproc::stop::kill }, { 2, 2, -1 } },
  { { reproc::stop::noop, reproc::stop::terminate, reproc::stop::kill }, { 0, 2, -1 } },
  { { reproc::stop::terminate, reproc::stop::wait, reproc::stop::kill }, { 2, 2, -1 } },
  { { reproc::stop::kill, reproc::stop::noop, reproc::stop::noop }, { -1, 0, 0 } },
};
const int NPOL = 4;
const char *const cb_names[] = { "dies-on-term", "ignores-term" };
const char *const cb_scripts[] = { "", "S15:I ;" };

void cxx_stop_run(int tier, long cfg)
{
  (void) tier;
  int pi = (int) (cfg % NPOL), cb = (int) (cfg / NPOL);
  memset(&vk_cfg, 0, sizeof vk_cfg);
  vk_cfg.sched_on = 1;
  vk_cfg.sched_bound = 0; /* no deviations (a signal that takes effect late would legitimately draw the next action): the timing side is h_stop's */
  vk_cfg.vlimit = 24;
  vk_cfg.hello_lite = 1;
  snprintf(key, sizeof key, "h_c15_cxx|policy=%d|child=%s", pi, cb_names[cb]);
  hx_desc("%s", key);
  snprintf(key, sizeof key, "h_c15_cxx|child=%s", cb_names[cb]);
  hx_begin();
  vk_script(cb_scripts[cb]);
  struct vk_child *c = nullptr;
  int api_before;
  {
    reproc::process p;
    reproc::options o;
    o.stop.first = { pols[pi].a[0], reproc::milliseconds(pols[pi].t[0]) };
    o.stop.second = { pols[pi].a[1], reproc::milliseconds(pols[pi].t[1]) };
    o.stop.third = { pols[pi].a[2], reproc::milliseconds(pols[pi].t[2]) };
    const char *argv[] = { vk_helper_path, nullptr };
    vk_cfg.sched_on = 0;
    std::error_code ec = p.start(argv, o);
    vk_cfg.sched_on = 1;
    if (ec || vk_nchildren != 1) vk_finish(OUT_INFRA, "reproc++ start failed");
    c = &vk_children[0];
    api_before = vk_api_seq;
    hx_last_api = vk_api_begin("~process()");
  } // the destructor runs here
  vk_api_end(0);
  (void) api_before;
  // what the policy means for this child: the signals of its signalling actions in order, up to the first one that ends the child
  int want[3], nw = 0;
  for (int i = 0; i < 3; i++) {
    if (pols[pi].a[i] == reproc::stop::terminate) { want[nw++] = SIGTERM; if (cb == 0) break; }
    if (pols[pi].a[i] == reproc::stop::kill) { want[nw++] = SIGKILL; break; }
  }
  char got[64] = "", exp[64] = "";
  int same = c->nsigs == nw;
  for (int i = 0; i < c->nsigs; i++) { snprintf(got + strlen(got), sizeof got - strlen(got), "%d ", c->sigs[i].sig); if (i < nw && c->sigs[i].sig != want[i]) same = 0; }
  for (int i = 0; i < nw; i++) snprintf(exp + strlen(exp), sizeof exp - strlen(exp), "%d ", want[i]);
  vk_obs("destructor: signals %s", got);
  if (!same) vk_violation("C15", "destroy-runs-the-given-policy", key, "the destructor sent [%s], the policy given at start means [%s] for this child", got, exp);
  if (c->state != CH_REAPED) vk_violation("C15", "destroy-abandons-child", key, "after the destructor the child is in state %d although the policy ends with an unbounded wait", c->state);
  if (vk_fd_ledger_open_count() || vk_heap_live_count()) vk_violation("C15", "destroy-releases-all", key, "after the destructor %d descriptor(s) and %d block(s) remain", vk_fd_ledger_open_count(), vk_heap_live_count());
}

long cxx_stop_n(int tier) { (void) tier; return NPOL * 2; }

} // namespace

extern "C" const struct hx_harness h_c15_cxx = { "C15", "h_c15_cxx", cxx_stop_n, cxx_stop_run, nullptr, nullptr, 0, { 0, 0 }, 0 };
