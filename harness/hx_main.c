/* hx_main.c — explorer worker: deviation-bounded depth-first search over choice
 * sequences, one forked process per execution, statistics and replay. */
#include "hx.h"

#include <errno.h>
#include <fcntl.h>
#include <signal.h>
#include <stdarg.h>
#include <stdio.h>
#include <stdlib.h>
#include <string.h>
#include <sys/mman.h>
#include <sys/prctl.h>
#include <sys/resource.h>
#include <sys/stat.h>
#include <sys/time.h>
#include <sys/wait.h>
#include <time.h>
#include <unistd.h>

int hx_tier;
int hx_worker_id;
char hx_workdir[300];

static const struct hx_harness *H;
static FILE *hx_err(void)
{
  static FILE *f;
  if (!f) f = fdopen(HARNESS_FD_BASE + 500, "w");
  if (!f) f = stderr;
  setvbuf(f, NULL, _IONBF, 0);
  return f;
}
static double t_start, t_deadline;

static double nowsec(void)
{
  struct timespec ts;
  clock_gettime(CLOCK_MONOTONIC, &ts);
  return (double) ts.tv_sec + (double) ts.tv_nsec / 1e9;
}

/* ------------------------------------------------------------ statistics */
#define OBS_CAP (1u << 22)
static uint64_t *obs_set;
static long obs_distinct;

static void obs_add(uint64_t h)
{
  if (!h) h = 1;
  size_t i = (size_t) (h * 0x9E3779B97F4A7C15ull >> 42) % OBS_CAP;
  for (;;) {
    if (obs_set[i] == h) return;
    if (obs_set[i] == 0) {
      obs_set[i] = h;
      obs_distinct++;
      return;
    }
    i = (i + 1) % OBS_CAP;
    if (obs_distinct > (long) OBS_CAP / 2) return;
  }
}

struct viol_rec {
  struct vk_violation v;
  long cfg;
  int nchoices;
  uint8_t choices[VK_MAX_TRACE];
  long count;
  int confirmed;
  char *log;
};
static struct viol_rec *viols;
static int nviols;
#define MAX_VIOLS 64
static long viol_overflow;

struct sample {
  long cfg;
  char desc[300];
  int nchoices;
  uint8_t choices[VK_MAX_TRACE];
  char *log;
  int outcome;
};
static struct sample samples[3];
static int nsamples;

static long st_real_validated, st_real_mismatch, st_free_validated, st_free_mismatch;
static long st_exec, st_points, st_outcome[OUT_NOUT], st_infra, st_crash, st_replay_checked, st_replay_mismatch,
    st_configs_done, st_capped_configs, st_unconfirmed, st_trace_overflow;
static int st_max_trace;
static long st_dev_hist[4][4][4]; /* executions by (sched,fault,time) deviations, capped at 3 */
static uint64_t st_clause_hits[VK_NCLAUSE];
static int st_bounds[K_NKINDS];

/* ------------------------------------------------------------ one execution */

static void exec_child(long cfg) __attribute__((noreturn));
static void exec_child(long cfg)
{
  setpgid(0, 0);
  prctl(PR_SET_PDEATHSIG, SIGKILL);
  H->run(hx_tier, cfg);
  vk_finish(OUT_DONE, "ok");
}

static volatile pid_t watchdog_pid;
static volatile int watchdog_fired;
static void on_alarm(int sig)
{
  (void) sig;
  if (watchdog_pid > 0) {
    watchdog_fired = 1;
    kill(-watchdog_pid, SIGKILL);
    kill(watchdog_pid, SIGKILL);
  }
}

/* runs one execution with the given prefix; S holds the result. Returns the outcome. */
static int run_one(long cfg, const uint8_t *prefix, int plen, int verbose)
{
  /* reset shared region (cheaply: only the used parts) */
  int old_ev = S->nevents, old_log = S->loglen;
  (void) old_ev;
  (void) old_log;
  S->prefix_len = plen;
  if (plen) memcpy(S->prefix, prefix, (size_t) plen);
  S->verbose = verbose;
  S->ntrace = 0;
  memset(S->used, 0, sizeof S->used);
  S->nevents = 0;
  S->nviol = 0;
  S->outcome = OUT_NONE;
  S->outcome_msg[0] = 0;
  S->obs_hash = 0;
  S->diverged = 0;
  S->trace_overflow = 0;
  memset(S->clause_hits, 0, sizeof S->clause_hits);
  S->loglen = 0;
  S->log[0] = 0;
  S->cfgdesc[0] = 0;
  S->emulated_exec_used = 0;
  S->free_run_ok = 0;
  S->crashkey[0] = 0;
  S->child_exit_called = 0;

  pid_t pid = fork();
  if (pid < 0) {
    perror("fork");
    exit(2);
  }
  if (pid == 0) exec_child(cfg);
  int status = 0;
  /* watchdog: 60 s per execution, by interval timer (the handler kills the execution's process group) */
  watchdog_pid = pid;
  watchdog_fired = 0;
  struct itimerval itv = { { 0, 0 }, { 60, 0 } }, off = { { 0, 0 }, { 0, 0 } };
  setitimer(ITIMER_REAL, &itv, NULL);
  for (;;) {
    pid_t r = waitpid(pid, &status, 0);
    if (r == pid) break;
    if (r < 0 && errno != EINTR) break;
  }
  setitimer(ITIMER_REAL, &off, NULL);
  watchdog_pid = 0;
  if (watchdog_fired) {
    S->outcome = OUT_INFRA;
    snprintf(S->outcome_msg, sizeof S->outcome_msg, "watchdog: execution exceeded 60 s");
  }
  kill(-pid, SIGKILL); /* whatever the execution left behind */
  while (waitpid(-1, NULL, WNOHANG) > 0) {}
  if (S->outcome == OUT_NONE) {
    S->outcome = OUT_CRASH;
    if (WIFSIGNALED(status))
      snprintf(S->outcome_msg, sizeof S->outcome_msg, "execution process died on signal %d", WTERMSIG(status));
    else
      snprintf(S->outcome_msg, sizeof S->outcome_msg, "execution process exited with code %d without a verdict",
               WEXITSTATUS(status));
  }
  return S->outcome;
}

static void record_violation(long cfg, struct vk_violation *v)
{
  for (int i = 0; i < nviols; i++) {
    if (!strcmp(viols[i].v.key, v->key) && !strcmp(viols[i].v.prop, v->prop)) {
      viols[i].count++;
      return;
    }
  }
  if (nviols >= MAX_VIOLS) {
    viol_overflow++;
    return;
  }
  struct viol_rec *r = &viols[nviols++];
  memset(r, 0, sizeof *r);
  r->v = *v;
  r->cfg = cfg;
  r->nchoices = S->ntrace;
  for (int i = 0; i < S->ntrace; i++) r->choices[i] = S->trace[i].chosen;
  r->count = 1;
  r->log = NULL;
  r->confirmed = -1;
}

static void account(long cfg)
{
  st_exec++;
  st_points += S->ntrace;
  if (S->ntrace > st_max_trace) st_max_trace = S->ntrace;
  if (S->trace_overflow) st_trace_overflow++;
  st_outcome[S->outcome]++;
  int a = S->used[K_SCHED] > 3 ? 3 : S->used[K_SCHED], b = S->used[K_FAULT] > 3 ? 3 : S->used[K_FAULT],
      c = S->used[K_TIME] > 3 ? 3 : S->used[K_TIME];
  st_dev_hist[a][b][c]++;
  for (int i = 0; i < VK_NCLAUSE; i++) st_clause_hits[i] += S->clause_hits[i];
  if (S->outcome == OUT_INFRA) {
    st_infra++;
    fprintf(hx_err(), "[hx %s w%d] infrastructure error cfg=%ld: %s\n", H->prop, hx_worker_id, cfg, S->outcome_msg);
    return;
  }
  obs_add(S->obs_hash ^ ((uint64_t) S->outcome << 56) ^ ((uint64_t) (cfg + 1) * 0xD6E8FEB86659FD93ull));
  if (S->outcome == OUT_CRASH) {
    st_crash++;
    struct vk_violation v;
    memset(&v, 0, sizeof v);
    snprintf(v.prop, sizeof v.prop, "%s", H->prop);
    snprintf(v.clause, sizeof v.clause, "crash");
    snprintf(v.key, sizeof v.key, "%s|clause=crash", S->crashkey[0] ? S->crashkey : S->cfgdesc);
    snprintf(v.msg, sizeof v.msg, "%s", S->outcome_msg);
    record_violation(cfg, &v);
  }
  for (int i = 0; i < S->nviol; i++) record_violation(cfg, &S->viol[i]);
}

/* ------------------------------------------------------------ DFS */

struct node {
  int len;
  uint8_t *choices;
};
static struct node *stack;
static long sp, stack_cap;

static void push(const uint8_t *base, int len, int alt)
{
  if (sp >= stack_cap) {
    stack_cap = stack_cap ? stack_cap * 2 : 1024;
    stack = realloc(stack, (size_t) stack_cap * sizeof *stack);
  }
  stack[sp].len = len + 1;
  stack[sp].choices = malloc((size_t) len + 1);
  memcpy(stack[sp].choices, base, (size_t) len);
  stack[sp].choices[len] = (uint8_t) alt;
  sp++;
}

static long max_exec_per_config = 400000;

static long g_shard, g_nshards;

static void explore_config(long cfg)
{
  int split = H->split_dfs;
  sp = 0;
  {
    uint8_t zero = 0;
    push(&zero, 0, 0); /* placeholder, turned into the empty prefix */
    stack[0].len = 0;
  }
  long execs = 0;
  int capped = 0;
  while (sp > 0) {
    if (t_deadline > 0 && nowsec() > t_deadline) { capped = 1; break; }
    if (execs >= max_exec_per_config) { capped = 1; break; }
    struct node nd = stack[--sp];
    run_one(cfg, nd.choices, nd.len, 0);
    execs++;
    if (!(split && nd.len == 0 && g_shard != 0)) account(cfg);
    int want_sample = nsamples < 3 && hx_worker_id == 0 && (execs == 1 || (execs == 7 && S->ntrace > 0)) && S->outcome != OUT_INFRA;
    if (S->outcome == OUT_INFRA) {
      free(nd.choices);
      continue;
    }
    /* periodic replay-determinism check */
    int ntrace = S->ntrace;
    static struct vk_choice tr[VK_MAX_TRACE];
    memcpy(tr, S->trace, (size_t) ntrace * sizeof tr[0]);
    if (st_exec % 997 == 1 && ntrace > 0) {
      uint64_t h = S->obs_hash;
      int oc = S->outcome;
      uint8_t full[VK_MAX_TRACE];
      for (int i = 0; i < ntrace; i++) full[i] = tr[i].chosen;
      run_one(cfg, full, ntrace, 0);
      st_replay_checked++;
      if (S->obs_hash != h || S->outcome != oc || S->ntrace != ntrace) {
        st_replay_mismatch++;
        fprintf(hx_err(), "[hx %s] replay mismatch cfg=%ld (obs %llx vs %llx, outcome %d vs %d, trace %d vs %d)\n", H->prop,
                cfg, (unsigned long long) h, (unsigned long long) S->obs_hash, oc, S->outcome, ntrace, S->ntrace);
      }
    }
    /* differential validation of the emulated exec: the default schedule of every configuration once more with the real exec */
    if (nd.len == 0 && S->emulated_exec_used && S->outcome != OUT_INFRA && !(split && g_shard != 0)) {
      uint64_t h = S->obs_hash;
      int oc = S->outcome, nv = S->nviol;
      S->force_real_exec = 1;
      run_one(cfg, NULL, 0, 0);
      S->force_real_exec = 0;
      st_real_validated++;
      if (S->obs_hash != h || S->outcome != oc || S->nviol != nv) {
        st_real_mismatch++;
        fprintf(hx_err(), "[hx %s] emulated/real exec disagree cfg=%ld (obs %llx vs %llx, outcome %d vs %d)\n", H->prop, cfg, (unsigned long long) h,
                (unsigned long long) S->obs_hash, oc, S->outcome);
      }
    }
    /* differential validation of serialised scheduling and the virtual clock: the same default schedule, free-running */
    if (nd.len == 0 && H->validate_free_stride && S->free_run_ok && S->outcome == OUT_DONE && S->nviol == 0 && (cfg % H->validate_free_stride) == 0 &&
        !(split && g_shard != 0)) {
      uint64_t h = S->obs_hash;
      int ok = 0;
      for (int attempt = 0; attempt < 3 && !ok; attempt++) {
        S->force_passthru = 1;
        run_one(cfg, NULL, 0, 0);
        S->force_passthru = 0;
        ok = S->obs_hash == h && S->outcome == OUT_DONE;
      }
      st_free_validated++;
      if (!ok) {
        st_free_mismatch++;
        fprintf(hx_err(), "[hx %s] stepped and free-running executions disagree cfg=%ld (obs %llx vs %llx, outcome %d): %s\n", H->prop, cfg, (unsigned long long) h,
                (unsigned long long) S->obs_hash, S->outcome, S->cfgdesc);
      }
    }
    if (want_sample) {
      /* run the same choice sequence again with logging on, to have something readable in the evidence */
      uint8_t full[VK_MAX_TRACE];
      for (int i = 0; i < ntrace; i++) full[i] = tr[i].chosen;
      run_one(cfg, full, ntrace, 1);
      struct sample *sm = &samples[nsamples++];
      sm->cfg = cfg;
      snprintf(sm->desc, sizeof sm->desc, "%s", S->cfgdesc);
      sm->nchoices = S->ntrace;
      for (int i = 0; i < S->ntrace; i++) sm->choices[i] = S->trace[i].chosen;
      sm->log = strdup(S->log);
      sm->outcome = S->outcome;
    }
    for (int k = 0; k < K_NKINDS; k++) st_bounds[k] = 0;
    /* expand: alternatives at points beyond the prefix, within the per-kind budgets */
    int used[K_NKINDS] = { 0 };
    for (int i = 0; i < nd.len && i < ntrace; i++)
      if (tr[i].chosen && tr[i].cost) used[tr[i].kind]++;
    uint8_t base[VK_MAX_TRACE];
    for (int i = 0; i < ntrace; i++) base[i] = tr[i].chosen;
    /* push in reverse so that the earliest point / smallest alternative is explored first */
    for (int i = ntrace - 1; i >= nd.len; i--) {
      if (split && nd.len == 0 && (i % g_nshards) != g_shard) continue;
      /* choices after the prefix are all 0 (default), so `used` is that of the prefix */
      for (int alt = tr[i].n - 1; alt >= 1; alt--) push(base, i, alt);
    }
    free(nd.choices);
  }
  while (sp > 0) free(stack[--sp].choices);
  st_configs_done++;
  if (capped) st_capped_configs++;
}

/* ------------------------------------------------------------ BFS over operation histories */

static long st_bfs_states, st_bfs_max_depth;

static void explore_bfs(long cfg)
{
  int nops = H->bfs_nops, depth = H->bfs_depth[hx_tier];
  struct seq { int len; uint8_t ops[16]; };
  struct seq *frontier = malloc(sizeof *frontier), *next = NULL;
  long nf = 1, nn = 0, capn = 0;
  frontier[0].len = 0;
  /* visited set local to this configuration */
  size_t vcap = 1 << 16, vcount = 0;
  uint64_t *visited = calloc(vcap, sizeof *visited);
  int capped = 0;
  for (int d = 1; d <= depth && nf > 0 && !capped; d++) {
    nn = 0;
    for (long i = 0; i < nf && !capped; i++) {
      for (int op = 0; op < nops; op++) {
        if (t_deadline > 0 && nowsec() > t_deadline) { capped = 1; break; }
        uint8_t pre[16];
        memcpy(pre, frontier[i].ops, (size_t) frontier[i].len);
        pre[frontier[i].len] = (uint8_t) op;
        S->state_digest = 0;
        S->state_terminal = 0;
        run_one(cfg, pre, frontier[i].len + 1, 0);
        account(cfg);
        if (nsamples < 3 && hx_worker_id == 0 && d == depth && op == 5 && S->outcome != OUT_INFRA) {
          uint64_t dg = S->state_digest;
          int term = S->state_terminal;
          run_one(cfg, pre, frontier[i].len + 1, 1);
          struct sample *sm = &samples[nsamples++];
          sm->cfg = cfg;
          snprintf(sm->desc, sizeof sm->desc, "%s", S->cfgdesc);
          sm->nchoices = S->ntrace;
          for (int k = 0; k < S->ntrace; k++) sm->choices[k] = S->trace[k].chosen;
          sm->log = strdup(S->log);
          sm->outcome = S->outcome;
          S->state_digest = dg;
          S->state_terminal = term;
        }
        if (S->outcome != OUT_DONE || S->state_terminal || S->nviol) continue;
        uint64_t dg = S->state_digest ? S->state_digest : 1;
        size_t slot = (size_t) (dg * 0x9E3779B97F4A7C15ull >> 40) % vcap;
        int seen = 0;
        while (visited[slot]) { if (visited[slot] == dg) { seen = 1; break; } slot = (slot + 1) % vcap; }
        if (seen) continue;
        visited[slot] = dg;
        vcount++;
        st_bfs_states++;
        if (d > st_bfs_max_depth) st_bfs_max_depth = d;
        if (vcount * 2 > vcap) {
          /* grow */
          size_t ncap = vcap * 4;
          uint64_t *nv = calloc(ncap, sizeof *nv);
          for (size_t k = 0; k < vcap; k++) if (visited[k]) { size_t sl = (size_t) (visited[k] * 0x9E3779B97F4A7C15ull >> 40) % ncap; while (nv[sl]) sl = (sl + 1) % ncap; nv[sl] = visited[k]; }
          free(visited);
          visited = nv;
          vcap = ncap;
        }
        if (d < depth) {
          if (nn >= capn) { capn = capn ? capn * 2 : 1024; next = realloc(next, (size_t) capn * sizeof *next); }
          next[nn].len = frontier[i].len + 1;
          memcpy(next[nn].ops, pre, (size_t) next[nn].len);
          nn++;
        }
      }
    }
    free(frontier);
    frontier = next;
    nf = nn;
    next = NULL;
    capn = 0;
  }
  free(frontier);
  free(visited);
  st_configs_done++;
  if (capped) st_capped_configs++;
}

/* ------------------------------------------------------------ JSON */

static void jstr(FILE *f, const char *s)
{
  fputc('"', f);
  for (; *s; s++) {
    unsigned char c = (unsigned char) *s;
    if (c == '"' || c == '\\') fprintf(f, "\\%c", c);
    else if (c == '\n') fputs("\\n", f);
    else if (c < 0x20 || c >= 0x7f) fprintf(f, "\\u%04x", c);
    else fputc(c, f);
  }
  fputc('"', f);
}

static void jchoices(FILE *f, const uint8_t *c, int n)
{
  fputc('[', f);
  for (int i = 0; i < n; i++) fprintf(f, "%s%d", i ? "," : "", c[i]);
  fputc(']', f);
}

static void write_stats(const char *path, long ncfg, long first, long step, double wall)
{
  FILE *f = fopen(path, "w");
  if (!f) { perror(path); exit(2); }
  fprintf(f, "{\"split_dfs\":%d,", H->split_dfs);
  fprintf(f, "\"prop\":\"%s\",\"harness\":\"%s\",\"tier\":\"%s\",\"worker\":%d,\"configs_total\":%ld,\"shard_first\":%ld,\"shard_step\":%ld,",
          H->prop, H->name, hx_tier ? "thorough" : "quick", hx_worker_id, ncfg, first, step);
  fprintf(f, "\"configs_done\":%ld,\"capped_configs\":%ld,\"executions\":%ld,\"choice_points\":%ld,\"max_trace\":%d,"
             "\"distinct_observations\":%ld,\"infra_errors\":%ld,\"crashes\":%ld,\"replay_checked\":%ld,\"replay_mismatch\":%ld,"
             "\"real_exec_validated\":%ld,\"real_exec_mismatch\":%ld,\"free_run_validated\":%ld,\"free_run_mismatch\":%ld,\"trace_overflow\":%ld,\"viol_overflow\":%ld,\"wall_s\":%.3f,\"bfs_states\":%ld,\"bfs_max_depth\":%ld,\"deadline_hit\":%s,",
          st_configs_done, st_capped_configs, st_exec, st_points, st_max_trace, obs_distinct, st_infra, st_crash,
          st_replay_checked, st_replay_mismatch, st_real_validated, st_real_mismatch, st_free_validated, st_free_mismatch, st_trace_overflow, viol_overflow, wall, st_bfs_states, st_bfs_max_depth,
          (t_deadline > 0 && nowsec() > t_deadline) ? "true" : "false");
  fprintf(f, "\"outcomes\":{\"done\":%ld,\"hang\":%ld,\"infra\":%ld,\"crash\":%ld},", st_outcome[OUT_DONE], st_outcome[OUT_HANG],
          st_outcome[OUT_INFRA], st_outcome[OUT_CRASH]);
  fprintf(f, "\"deviations\":{");
  int first_d = 1;
  for (int a = 0; a < 4; a++)
    for (int b = 0; b < 4; b++)
      for (int c = 0; c < 4; c++)
        if (st_dev_hist[a][b][c]) {
          fprintf(f, "%s\"s%df%dt%d\":%ld", first_d ? "" : ",", a, b, c, st_dev_hist[a][b][c]);
          first_d = 0;
        }
  fprintf(f, "},\"clause_hits\":{");
  int fc = 1;
  for (int i = 0; i < VK_NCLAUSE; i++) {
    const char *nm = NULL;
    if (H->clause_names) {
      int k = 0;
      while (H->clause_names[k] && k < i) k++;
      if (k == i) nm = H->clause_names[k];
    }
    if (!nm) continue;
    fprintf(f, "%s", fc ? "" : ",");
    jstr(f, nm);
    fprintf(f, ":%llu", (unsigned long long) st_clause_hits[i]);
    fc = 0;
  }
  fprintf(f, "},\"violations\":[");
  for (int i = 0; i < nviols; i++) {
    struct viol_rec *r = &viols[i];
    fprintf(f, "%s{\"prop\":\"%s\",\"clause\":", i ? "," : "", r->v.prop);
    jstr(f, r->v.clause);
    fprintf(f, ",\"key\":");
    jstr(f, r->v.key);
    fprintf(f, ",\"msg\":");
    jstr(f, r->v.msg);
    fprintf(f, ",\"cfg\":%ld,\"count\":%ld,\"confirmed\":%d,\"choices\":", r->cfg, r->count, r->confirmed);
    jchoices(f, r->choices, r->nchoices);
    fprintf(f, ",\"log\":");
    jstr(f, r->log ? r->log : "");
    fprintf(f, "}");
  }
  fprintf(f, "],\"samples\":[");
  for (int i = 0; i < nsamples; i++) {
    struct sample *sm = &samples[i];
    fprintf(f, "%s{\"cfg\":%ld,\"config\":", i ? "," : "", sm->cfg);
    jstr(f, sm->desc);
    fprintf(f, ",\"outcome\":%d,\"choices\":", sm->outcome);
    jchoices(f, sm->choices, sm->nchoices);
    fprintf(f, ",\"log\":");
    jstr(f, sm->log ? sm->log : "");
    fprintf(f, "}");
  }
  fprintf(f, "]}\n");
  fclose(f);
}

/* ------------------------------------------------------------ main */

static const struct hx_harness *find_harness(const char *name)
{
  for (int i = 0; hx_harnesses[i]; i++)
    if (!strcmp(hx_harnesses[i]->name, name) || !strcmp(hx_harnesses[i]->prop, name)) return hx_harnesses[i];
  return NULL;
}

static void setup_scratch(void)
{
  const char *sc = getenv("HX_SCRATCH");
  if (!sc) {
    fprintf(stderr, "HX_SCRATCH not set\n");
    exit(2);
  }
  snprintf(vk_scratch, sizeof vk_scratch, "%s", sc);
  snprintf(vk_helper_path, sizeof vk_helper_path, "%s/bin/vchild", sc);
  snprintf(hx_workdir, sizeof hx_workdir, "%s/w%d-%d", sc, hx_worker_id, (int) getpid());
  mkdir(hx_workdir, 0755);
}

int main(int argc, char **argv)
{
  if (argc < 2) {
    fprintf(stderr, "usage: hx list | run <harness> <quick|thorough> <shard> <nshards> <out.json> [deadline_s] | replay <harness> <tier> <cfg> <c,c,c...>\n");
    return 2;
  }
  if (!strcmp(argv[1], "list")) {
    for (int i = 0; hx_harnesses[i]; i++)
      printf("%s %s quick=%ld thorough=%ld\n", hx_harnesses[i]->prop, hx_harnesses[i]->name,
             hx_harnesses[i]->nconfigs(0), hx_harnesses[i]->nconfigs(1));
    return 0;
  }
  /* the worker must not depend on what the caller left open */
  signal(SIGPIPE, SIG_IGN);
  {
    struct sigaction sa;
    memset(&sa, 0, sizeof sa);
    sa.sa_handler = on_alarm;
    sigaction(SIGALRM, &sa, NULL);
  }
  prctl(PR_SET_CHILD_SUBREAPER, 1);
  struct rlimit rl;
  if (getrlimit(RLIMIT_NOFILE, &rl) == 0) {
    if (rl.rlim_max < 4096) {
      fprintf(stderr, "hx: hard RLIMIT_NOFILE %ld < 4096\n", (long) rl.rlim_max);
      return 2;
    }
    rl.rlim_cur = 4096;
    setrlimit(RLIMIT_NOFILE, &rl);
  }
  S = mmap(NULL, sizeof *S, PROT_READ | PROT_WRITE, MAP_SHARED | MAP_ANONYMOUS, -1, 0);
  if (S == MAP_FAILED) { perror("mmap"); return 2; }
  obs_set = calloc(OBS_CAP, sizeof *obs_set);
  viols = calloc(MAX_VIOLS, sizeof *viols);

  if (!strcmp(argv[1], "run") && argc >= 7) {
    H = find_harness(argv[2]);
    if (!H) { fprintf(stderr, "unknown harness %s\n", argv[2]); return 2; }
    hx_tier = !strcmp(argv[3], "thorough");
    long shard = atol(argv[4]), nshards = atol(argv[5]);
    hx_worker_id = (int) shard;
    const char *out = argv[6];
    t_start = nowsec();
    if (argc >= 8 && atof(argv[7]) > 0) t_deadline = t_start + atof(argv[7]);
    if (getenv("HX_MAX_EXEC")) max_exec_per_config = atol(getenv("HX_MAX_EXEC"));
    setup_scratch();
    hx_worker_prepare();
    if (H->worker_init) H->worker_init(hx_tier);
    long ncfg = H->nconfigs(hx_tier);
    g_shard = shard;
    g_nshards = nshards;
    for (long c = 0; c < ncfg; c++) {
      /* scatter configurations over the shards so that heavy neighbours do not pile up on one worker */
      if (!H->split_dfs && (long) ((((uint64_t) c * 0x9E3779B97F4A7C15ull) >> 33) % (uint64_t) nshards) != shard) continue;
      if (t_deadline > 0 && nowsec() > t_deadline) break;
      if (H->bfs_nops) explore_bfs(c); else explore_config(c);
    }
    /* confirm each violation by replaying its choice sequence */
    for (int i = 0; i < nviols; i++) {
      struct viol_rec *r = &viols[i];
      run_one(r->cfg, r->choices, r->nchoices, 1);
      int ok = 0;
      if (!strcmp(r->v.clause, "crash")) ok = S->outcome == OUT_CRASH;
      for (int k = 0; k < S->nviol; k++)
        if (!strcmp(S->viol[k].prop, r->v.prop) && !strcmp(S->viol[k].clause, r->v.clause)) ok = 1;
      r->confirmed = ok;
      r->log = strdup(S->log);
      if (!ok) st_unconfirmed++;
    }
    write_stats(out, ncfg, shard, nshards, nowsec() - t_start);
    char cmd[400];
    snprintf(cmd, sizeof cmd, "rm -rf '%s'", hx_workdir);
    if (system(cmd)) {}
    return 0;
  }
  if (!strcmp(argv[1], "replay") && argc >= 5) {
    H = find_harness(argv[2]);
    if (!H) { fprintf(stderr, "unknown harness %s\n", argv[2]); return 2; }
    hx_tier = !strcmp(argv[3], "thorough");
    long cfg = atol(argv[4]);
    uint8_t ch[VK_MAX_TRACE];
    int n = 0;
    if (argc >= 6) {
      char *p = argv[5];
      while (*p && n < VK_MAX_TRACE) {
        ch[n++] = (uint8_t) strtol(p, &p, 10);
        if (*p == ',') p++;
      }
    }
    hx_worker_id = 0;
    setup_scratch();
    int out_fd = fcntl(1, F_DUPFD_CLOEXEC, HARNESS_FD_BASE + 600);
    hx_worker_prepare();
    if (H->worker_init) H->worker_init(hx_tier);
    S->force_passthru = getenv("HX_PASSTHRU") != NULL;
    S->force_real_exec = getenv("HX_REAL_EXEC") != NULL;
    run_one(cfg, ch, n, 1);
    dup2(out_fd, 1);
    printf("config: %s\n", S->cfgdesc);
    fputs(S->log, stdout);
    printf("outcome=%d (%s) trace=%d obs=%016llx\n", S->outcome, S->outcome_msg, S->ntrace, (unsigned long long) S->obs_hash);
    printf("choices:");
    for (int i = 0; i < S->ntrace; i++) printf(" %d", S->trace[i].chosen);
    printf("\n");
    int bad = S->outcome == OUT_CRASH;
    for (int k = 0; k < S->nviol; k++) {
      printf("VIOLATED %s/%s key=%s\n  %s\n", S->viol[k].prop, S->viol[k].clause, S->viol[k].key, S->viol[k].msg);
      bad = 1;
    }
    char cmd[400];
    snprintf(cmd, sizeof cmd, "rm -rf '%s'", hx_workdir);
    if (system(cmd)) {}
    return bad ? 1 : 0;
  }
  fprintf(stderr, "bad arguments\n");
  return 2;
}
