/* h_launch.c — C03: argv, environment, working directory and program resolution reach the child exactly.
 * DESIGN.md 3/C03. Bulk enumeration with the emulated exec, a subset and all path cases with the real one. */
#include "hx.h"

#include <errno.h>
#include <fcntl.h>
#include <limits.h>
#include <stdio.h>
#include <stdlib.h>
#include <string.h>
#include <sys/stat.h>
#include <unistd.h>

enum { CL_ARGV_OK, CL_ENV_OK, CL_CWD_OK, CL_PROG_OK, CL_EMPTY_ARG, CL_NONUTF8, CL_EXTEND, CL_EMPTY_ENV, CL_DEEP_CLEAN_FAIL, CL_DEEP_OK, CL_LONG_ARG, CL_PATH_SEARCH, CL_RESOLVE_FAULT_CLEAN };
static const char *const c03_clauses[] = { "argv-exact", "env-exact", "cwd-exact", "program-resolved-against-parent-cwd", "empty-string-argument", "non-utf8-bytes",
                                           "env-extend", "env-empty", "beyond-path-max-clean-failure", "deep-cwd-within-limit-works", "long-argument", "path-search", "resolution-failure-is-a-clean-error", NULL };

static char key[200];

static const char *const alpha1[13] = { "", "a", " ", "\t", "\n", "\"", "'", "\\", "=", "*", "$", "\x80", "\xff" };

static void kill_and_destroy(reproc_t *p)
{
  reproc_stop_actions k = { { REPROC_STOP_KILL, REPROC_INFINITE }, { REPROC_STOP_NOOP, 0 }, { REPROC_STOP_NOOP, 0 } };
  reproc_stop(p, k);
  hx_destroy(p);
}

static void check_argv(struct vk_child *c, const char *const *argv, int argc)
{
  if (c->hello.argc != argc) { vk_violation("C03", "argv-exact", key, "the child received %d arguments, %d were passed", c->hello.argc, argc); return; }
  for (int i = 0; i < argc; i++)
    if (strcmp(c->hello.argv[i], argv[i])) { vk_violation("C03", "argv-exact", key, "argument %d differs (%zu bytes received, %zu passed)", i, strlen(c->hello.argv[i]), strlen(argv[i])); return; }
  vk_hit(CL_ARGV_OK);
}

/* ---- A: argv vectors ---- */
static long n_argv_cfg(int tier) { (void) tier; return 1 + 13 + 169 + 2197 + 144 + 144 + 2; }

static void argv_cfg(long cfg)
{
  char two[144][3];
  const char *extra[4];
  int n = 0, real = 0;
  static char big[131072 + 8];
  if (cfg < 1) n = 0;
  else if (cfg < 14) { extra[0] = alpha1[cfg - 1]; n = 1; }
  else if (cfg < 183) { long k = cfg - 14; extra[0] = alpha1[k % 13]; extra[1] = alpha1[k / 13]; n = 2; real = 1; }
  else if (cfg < 2380) { long k = cfg - 183; extra[0] = alpha1[k % 13]; extra[1] = alpha1[(k / 13) % 13]; extra[2] = alpha1[k / 169]; n = 3; }
  else if (cfg < 2380 + 288) {
    long k = (cfg - 2380) % 144;
    real = cfg >= 2380 + 144;
    snprintf(two[0], 3, "%s%s", alpha1[1 + k % 12], alpha1[1 + k / 12]);
    extra[0] = two[0];
    n = 1;
  } else {
    size_t len = cfg == 2380 + 288 ? 4096 : 131071;
    memset(big, 'x', len);
    big[len / 2] = ' ';
    big[len] = 0;
    extra[0] = big;
    n = 1;
    real = 1;
    vk_hit(CL_LONG_ARG);
  }
  memset(&vk_cfg, 0, sizeof vk_cfg);
  vk_cfg.real_exec = real;
  vk_cfg.vlimit = 24;
  vk_cfg.hello_lite = !real;
  snprintf(key, sizeof key, "h_c03|argv|n=%d|cfg=%ld|%s", n, cfg, real ? "real" : "emul");
  hx_desc("%s", key);
  snprintf(key, sizeof key, "h_c03|argv");
  hx_begin();
  const char *argv[6];
  argv[0] = vk_helper_path;
  for (int i = 0; i < n; i++) {
    argv[1 + i] = extra[i];
    if (!extra[i][0]) vk_hit(CL_EMPTY_ARG);
    if ((unsigned char) extra[i][0] >= 0x80) vk_hit(CL_NONUTF8);
  }
  argv[1 + n] = NULL;
  reproc_options o;
  memset(&o, 0, sizeof o);
  vk_script("");
  reproc_t *p = hx_new();
  int r = hx_start(p, argv, o);
  if (r < 0) { vk_violation("C03", "start", key, "start returned %s", hx_errname(r)); hx_destroy(p); return; }
  struct vk_child *c = &vk_children[0];
  if (!c->have_hello) vk_violation("C04", "success-without-program", key, "no hello");
  else check_argv(c, argv, n + 1);
  kill_and_destroy(p);
}

/* ---- B: environment ---- */
static const char *const env_entries[8] = { "A=1", "B=", "=C", "noequals", "A=2", "\xc3\x9c=\xc3\x9f", "SP=a b", "Q=\"'\\" };
static char *penv_empty[] = { NULL };
static char *penv_one[] = { "ONLY=1", NULL };
static char *penv_dup[] = { "A=first", "PATH=/usr/bin:/bin", "A=second", NULL };
static char *penv_forty[42];

static long n_env_cfg(int tier) { return (long) (tier ? 585 : 73) * 2 * 4 * 2; }

static void env_cfg(int tier, long cfg)
{
  (void) tier;
  int forkmode = (int) (cfg % 2); /* the same lists through fork mode: the forked side reports the environment it ends up with */
  cfg /= 2;
  int pe = (int) (cfg % 4);
  cfg /= 4;
  int behavior = (int) (cfg % 2);
  cfg /= 2;
  const char *extra[4];
  int n = 0;
  if (cfg >= 1 && cfg < 9) { extra[0] = env_entries[cfg - 1]; n = 1; }
  else if (cfg >= 9 && cfg < 73) { long k = cfg - 9; extra[0] = env_entries[k % 8]; extra[1] = env_entries[k / 8]; n = 2; }
  else if (cfg >= 73) { long k = cfg - 73; extra[0] = env_entries[k % 8]; extra[1] = env_entries[(k / 8) % 8]; extra[2] = env_entries[k / 64]; n = 3; }
  extra[n] = NULL;
  memset(&vk_cfg, 0, sizeof vk_cfg);
  vk_cfg.real_exec = (cfg % 5) == 0 && !forkmode; /* every fifth list with the real exec as well: binds the emulation */
  vk_cfg.fork_mode = forkmode;
  vk_cfg.fork_child_first = forkmode;
  vk_cfg.vlimit = 24;
  vk_cfg.hello_lite = !vk_cfg.real_exec;
  snprintf(key, sizeof key, "h_c03|env|behavior=%s|parent-env=%d|extra=%d|list=%ld|%s", behavior ? "empty" : "extend", pe, n, cfg, forkmode ? "fork-mode" : "exec");
  hx_desc("%s", key);
  snprintf(key, sizeof key, "h_c03|env|behavior=%s%s", behavior ? "empty" : "extend", forkmode ? "|fork-mode" : "");
  hx_begin();
  static char strs[40][24];
  for (int i = 0; i < 40; i++) { snprintf(strs[i], sizeof strs[i], "V%02d=value %d", i, i * i); penv_forty[i] = strs[i]; }
  penv_forty[40] = NULL;
  char **parent = pe == 0 ? penv_empty : pe == 1 ? penv_one : pe == 2 ? penv_forty : penv_dup;
  vk_environ = parent;
  reproc_options o;
  memset(&o, 0, sizeof o);
  o.env.behavior = behavior ? REPROC_ENV_EMPTY : REPROC_ENV_EXTEND;
  o.env.extra = n || (cfg & 1) ? extra : NULL; /* NULL and an empty list must behave the same */
  vk_script("");
  reproc_t *p = hx_new();
  o.fork = forkmode;
  int r = hx_start(p, forkmode ? NULL : hx_helper_argv(), o);
  if (vk_side != 0) hx_forked_side(p, r);
  if (r < 0) { vk_violation("C03", "start", key, "start returned %s", hx_errname(r)); hx_destroy(p); return; }
  struct vk_child *c = &vk_children[0];
  if (vk_environ != parent) vk_violation("C12", "parent-environ-untouched", key, "the caller's environ pointer changed");
  if (!c->have_hello) vk_violation("C04", "success-without-program", key, "no hello");
  else {
    int np = 0;
    if (!behavior) while (parent[np]) np++;
    int want = np + n, ok = 1;
    if (c->hello.envc != want) { vk_violation("C03", "env-exact", key, "the child has %d environment entries, expected %d (%d of the parent + %d extra)", c->hello.envc, want, np, n); ok = 0; }
    for (int i = 0; i < want && ok; i++) {
      const char *w = i < np ? parent[i] : extra[i - np];
      if (strcmp(c->hello.envp[i], w)) { vk_violation("C03", "env-exact", key, "environment entry %d is \"%s\", expected \"%s\"", i, c->hello.envp[i], w); ok = 0; }
    }
    if (ok) { vk_hit(CL_ENV_OK); vk_hit(behavior ? CL_EMPTY_ENV : CL_EXTEND); }
  }
  kill_and_destroy(p);
}

/* ---- C: working directory and program resolution (real exec) ---- */
enum { PG_ABS, PG_REL_DOT, PG_REL_DIR, PG_REL_UP, PG_BARE, NPG };
static const char *const pg_names[] = { "absolute", "./dir/prog", "dir/prog", "../x/prog", "bare-name-via-PATH" };
enum { WD_NONE, WD_SUB, WD_SPACES, WD_ABS, NWD };

static long n_path_cfg(void) { return NPG * NWD * 2; }

static void path_cfg(long cfg)
{
  int pg = (int) (cfg % NPG);
  cfg /= NPG;
  int wd = (int) (cfg % NWD);
  int behavior = (int) (cfg / NWD);
  memset(&vk_cfg, 0, sizeof vk_cfg);
  vk_cfg.real_exec = 1;
  vk_cfg.vlimit = 24;
  snprintf(key, sizeof key, "h_c03|path|program=%s|workdir=%d|env=%s", pg_names[pg], wd, behavior ? "empty" : "extend");
  hx_desc("%s", key);
  snprintf(key, sizeof key, "h_c03|path|program=%s", pg_names[pg]);
  hx_begin();
  mkdir("sub", 0755);
  mkdir("dir with spaces", 0755);
  mkdir("progs", 0755);
  mkdir("x", 0755);
  mkdir("here", 0755);
  unlink("progs/vc");
  if (link(vk_helper_path, "progs/vc") < 0) vk_finish(OUT_INFRA, "link: %s", strerror(errno));
  unlink("x/vc");
  if (link(vk_helper_path, "x/vc") < 0) vk_finish(OUT_INFRA, "link: %s", strerror(errno));
  /* a decoy with the same relative name under every working directory: resolving against the child's directory would hit it */
  {
    static const char *const dd[] = { "sub/progs", "dir with spaces/progs" };
    for (int i = 0; i < 2; i++) {
      char f[64];
      mkdir(dd[i], 0755);
      snprintf(f, sizeof f, "%s/vc", dd[i]);
      int d = open(f, O_WRONLY | O_CREAT | O_TRUNC, 0755);
      if (d < 0 || write(d, "#!/bin/sh\nexit 0\n", 18) != 18) vk_finish(OUT_INFRA, "decoy: %s", strerror(errno));
      close(d);
    }
  }
  /* resolving a relative program needs the parent's directory: getcwd() and the allocations around it may fail (one fault per execution) */
  vk_cfg.faults_on = 1;
  vk_cfg.fault_bound = 1;
  vk_cfg.fault_calls = (1ull << C_GETCWD) | (1ull << C_CALLOC) | (1ull << C_REALLOC) | (1ull << C_MALLOC);
  const char *wds[] = { NULL, "sub", "dir with spaces", NULL };
  char abswd[400];
  snprintf(abswd, sizeof abswd, "%s/sub", hx_workdir);
  wds[3] = abswd;
  static char pathvar[400];
  snprintf(pathvar, sizeof pathvar, "PATH=/nonexistent:%s/progs", hx_workdir);
  static char *penv[3];
  penv[0] = "KEEP=1";
  penv[1] = pathvar;
  penv[2] = NULL;
  vk_environ = penv;
  if (pg == PG_REL_UP) { if (chdir("here") < 0) vk_finish(OUT_INFRA, "chdir"); }
  char cwd_parent[512];
  if (!getcwd(cwd_parent, sizeof cwd_parent)) strcpy(cwd_parent, "?");
  const char *argv[3] = { NULL, "arg", NULL };
  char absprog[400];
  snprintf(absprog, sizeof absprog, "%s/progs/vc", hx_workdir);
  switch (pg) {
    case PG_ABS: argv[0] = absprog; break;
    case PG_REL_DOT: argv[0] = "./progs/vc"; break;
    case PG_REL_DIR: argv[0] = "progs/vc"; break;
    case PG_REL_UP: argv[0] = "../x/vc"; break;
    case PG_BARE: argv[0] = "vc"; break;
  }
  reproc_options o;
  memset(&o, 0, sizeof o);
  const char *wdir = wds[wd];
  char wd_from_here[420];
  if (wdir && pg == PG_REL_UP && wd != WD_ABS) { snprintf(wd_from_here, sizeof wd_from_here, "../%s", wdir); wdir = wd_from_here; }
  o.working_directory = wdir;
  o.env.behavior = behavior ? REPROC_ENV_EMPTY : REPROC_ENV_EXTEND;
  static const char *extra_path[2];
  if (behavior && pg == PG_BARE) {
    /* with an empty environment the search path is whatever the extra entries say */
    extra_path[0] = pathvar;
    extra_path[1] = NULL;
    o.env.extra = extra_path;
  }
  vk_script("");
  reproc_t *p = hx_new();
  vk_faults_armed = 1;
  int r = hx_start(p, argv, o);
  vk_faults_armed = 0;
  char now[512];
  if (!getcwd(now, sizeof now) || strcmp(now, cwd_parent)) vk_violation("C12", "parent-cwd-untouched", key, "the caller's working directory changed to %s", now);
  if (r < 0) {
    /* a failed call behind it: a clean failure is all that is asked */
    for (int i = 0; i < S->nevents; i++)
      if (S->ev[i].api == hx_last_api && S->ev[i].injected > 0 && r == -S->ev[i].injected) { vk_hit(CL_RESOLVE_FAULT_CLEAN); hx_destroy(p); return; }
  }
  if (r < 0) { vk_violation("C03", "program-resolution", key, "start returned %s for program \"%s\" (working_directory %s)", hx_errname(r), argv[0], wdir ? wdir : "unset"); hx_destroy(p); return; }
  struct vk_child *c = &vk_children[0];
  if (!c->have_hello) {
    vk_violation("C03", "program-resolution", key, "the program that ran is not the requested one (no hello; working_directory %s)", wdir ? wdir : "unset");
  } else {
    vk_hit(CL_PROG_OK);
    if (pg == PG_BARE) vk_hit(CL_PATH_SEARCH);
    check_argv(c, argv, 2);
    char want[600];
    if (wd == WD_NONE) snprintf(want, sizeof want, "%s", cwd_parent);
    else if (wd == WD_ABS) snprintf(want, sizeof want, "%s", abswd);
    else snprintf(want, sizeof want, "%s/%s", hx_workdir, wds[wd]);
    if (strcmp(c->hello.cwd, want)) vk_violation("C03", "cwd-exact", key, "the child runs in \"%s\", expected \"%s\"", c->hello.cwd, want);
    else vk_hit(CL_CWD_OK);
  }
  kill_and_destroy(p);
}

static long c03_n(int tier) { return n_argv_cfg(tier) + n_env_cfg(tier) + n_path_cfg(); }
static void c03_run(int tier, long cfg)
{
  if (cfg < n_argv_cfg(tier)) { argv_cfg(cfg); return; }
  cfg -= n_argv_cfg(tier);
  if (cfg < n_env_cfg(tier)) { env_cfg(tier, cfg); return; }
  cfg -= n_env_cfg(tier);
  path_cfg(cfg);
}

/* ---- D: depth of the parent's working directory (sanitizer build) ---- */
static const int depths[] = { 100, 2000, 4000, 4085, 4090, 4093, 4094, 4095, 4096, 4097, 4100, 8192, 20000 };
#define NDEPTH 13

static long deep_n(int tier) { (void) tier; return NDEPTH * 2; }

static void deep_run(int tier, long cfg)
{
  (void) tier;
  int target = depths[cfg % NDEPTH];
  int with_wd = (int) (cfg / NDEPTH);
  memset(&vk_cfg, 0, sizeof vk_cfg);
  vk_cfg.real_exec = 1;
  vk_cfg.vlimit = 24;
  snprintf(key, sizeof key, "h_c03|deep-cwd|length=%d|working_directory=%s", target, with_wd ? "set" : "unset");
  hx_desc("%s", key);
  snprintf(key, sizeof key, "h_c03|deep-cwd|working_directory=%s", with_wd ? "set" : "unset");
  hx_begin();
  /* descend with components of up to 255 bytes until the path is exactly `target` bytes long */
  char comp[256];
  size_t cur = strlen(hx_workdir);
  char top[32];
  snprintf(top, sizeof top, "deep-%d", target);
  mkdir(top, 0755);
  if (chdir(top) < 0) vk_finish(OUT_INFRA, "chdir");
  cur += 1 + strlen(top);
  while ((int) cur < target) {
    int room = target - (int) cur - 1;
    if (room <= 0) break;
    if (room > 255) room = 255;
    if (target - (int) cur - 1 - room == 1) room--; /* never leave a remainder that cannot be a component */
    memset(comp, 'd', (size_t) room);
    comp[room] = 0;
    mkdir(comp, 0755);
    if (chdir(comp) < 0) vk_finish(OUT_INFRA, "chdir into depth %zu: %s", cur, strerror(errno));
    cur += 1 + (size_t) room;
  }
  unlink("vc");
  if (link(vk_helper_path, "vc") < 0 && errno != EEXIST) vk_finish(OUT_INFRA, "link in deep dir: %s", strerror(errno));
  const char *argv[2] = { "./vc", NULL };
  reproc_options o;
  memset(&o, 0, sizeof o);
  if (with_wd) o.working_directory = "/";
  vk_script("");
  reproc_t *p = hx_new();
  int r = hx_start(p, argv, o);
  vk_obs("deep start=%s", hx_errname(r));
  if (r < 0) {
    /* beyond the operating system's limit only a clean failure is required */
    if (with_wd && (int) cur + 4 < PATH_MAX - 8) vk_violation("C03", "deep-cwd-within-limit", key, "start returned %s with a working directory of only %zu bytes", hx_errname(r), cur);
    else vk_hit(CL_DEEP_CLEAN_FAIL);
    if (vk_nchildren && vk_children[0].state != CH_REAPED) vk_violation("C04", "failed-start-leaves-child", key, "a child was left behind after %s", hx_errname(r));
    if (reproc_pid(p) != REPROC_EINVAL) vk_violation("C04", "failed-start-handle-state", key, "handle not reset after a failed start");
    hx_destroy(p);
  } else {
    struct vk_child *c = &vk_children[0];
    if (!c->have_hello) vk_violation("C03", "program-resolution", key, "start succeeded but the helper did not run (cwd %zu bytes)", cur);
    else {
      vk_hit(CL_DEEP_OK);
      if (with_wd && strcmp(c->hello.cwd, "/")) vk_violation("C03", "cwd-exact", key, "child cwd is %.40s, expected /", c->hello.cwd);
    }
    kill_and_destroy(p);
  }
  if (vk_heap_live_count() || vk_fd_ledger_open_count()) vk_violation("C05", "ledgers-clean", key, "%d block(s) and %d descriptor(s) left", vk_heap_live_count(), vk_fd_ledger_open_count());
}

const struct hx_harness h_c03 = { "C03", "h_c03", c03_n, c03_run, c03_clauses, NULL };
const struct hx_harness h_c03_deep = { "C03", "h_c03_deep", deep_n, deep_run, c03_clauses, NULL };
