/* h_drain.c — C16: drain / run deliver each stream to its sink with the documented protocol. DESIGN.md 3/C16. */
#include "hx.h"
#include "ident.h"

#include <errno.h>
#include <fcntl.h>
#include <stdio.h>
#include <stdlib.h>
#include <string.h>
#include <unistd.h>

void *vk_malloc(size_t n);
void vk_free(void *p);

#define CAP 4096
enum { EM_PIPE, EM_MERGED, EM_PARENT, NEM };
static const char *const em_names[] = { "pipe", "stdout", "parent" };
static const char *const d_scripts[] = { "W1:%d W2:5 X3", "W1:%d W2:5 W1:3 C1 W2:7 C2 X0", "W2:5 C2 W1:%d C1 X5", "C1 W2:%d X0", "X0", "W1:%d W1:%d X1", "W1:%d W2:9000 W1:1 X2" };
#define NDS 7
static const int d_sizes[2][6] = { { 0, 1, CAP, 9000, -1, -1 }, { 0, 1, CAP - 1, CAP, CAP + 1, 9000 } };
static const int d_nsizes[2] = { 4, 6 };
enum { SM_REC, SM_FAILNEG, SM_FAILPOS, SM_STR_NULL, SM_STR_PRE, SM_STR_SAME, NSM };
static const char *const sm_names[] = { "recording", "fails-negative", "fails-positive", "string-null", "string-prefilled", "string-same-for-both" };
enum { API_DRAIN, API_RUNEX, NAPI };

enum { CL_INIT_CALLS, CL_CHUNKS_OK, CL_CLOSE_CALL_ONCE, CL_RETURN0_BOTH_ENDED, CL_SINK_ERR_FIRST, CL_SINK_ERR_MID, CL_SINK_ERR_LAST, CL_TIMEOUT, CL_STRING_OK,
       CL_STRING_ENOMEM_INTACT, CL_RUN_STATUS, CL_NO_CALL_AFTER_ERROR, CL_DEADLINE_AFTER_OUTPUT, CL_DEADLINE_BEFORE_OUTPUT };
static const char *const c16_clauses[] = { "initial-calls", "chunks-match-stream", "size-zero-call-once-per-stream", "returns-0-when-both-ended", "sink-error-at-first-call",
                                           "sink-error-at-middle-call", "sink-error-at-last-call", "deadline-timeout", "string-content-ok", "string-intact-after-enomem",
                                           "run-status", "no-sink-call-after-error", "deadline-after-some-output", "deadline-before-any-output", NULL };

static char key[200];
static struct vk_child *CH;
static int em, merged;

/* ---- recording sink ---- */
struct call { int stream; int size; };
static struct call calls[8192];
static int ncalls;
static uint32_t got[3];
static int zero_calls[3];
static int data_after_zero[3];
static int fail_at = -1, fail_value;
static int64_t g_deadline_abs; /* 0 = none */
static int late_chunks;
static int bad_bytes;
static int calls_after_error;
static int error_returned;

static int expected_byte(int s, uint32_t off, uint8_t *out)
{
  if (!merged) {
    if (off >= CH->wrote[s]) return 0;
    *out = vc_pat(s, off);
    return 1;
  }
  uint32_t pos = 0, cnt[3] = { 0, 0, 0 };
  for (int i = 0; i < CH->nworder; i++) {
    int fd = CH->worder[i].fd;
    uint32_t n = CH->worder[i].n;
    if (fd != 1 && fd != 2) continue;
    if (off < pos + n) { *out = vc_pat(fd, cnt[fd] + (off - pos)); return 1; }
    pos += n;
    cnt[fd] += n;
  }
  return 0;
}

static uint32_t total_written(int s)
{
  if (!merged) return CH ? CH->wrote[s] : 0;
  return s == 1 && CH ? CH->wrote[1] + CH->wrote[2] : 0;
}

static int rec_sink(REPROC_STREAM stream, const uint8_t *buffer, size_t size, void *context)
{
  (void) context;
  int idx = ncalls;
  if (error_returned) calls_after_error++;
  if (ncalls < 8192) { calls[ncalls].stream = (int) stream; calls[ncalls].size = (int) size; }
  ncalls++;
  if (stream == REPROC_STREAM_OUT || stream == REPROC_STREAM_ERR) {
    int s = (int) stream;
    if (size == 0) zero_calls[s]++;
    else {
      if (zero_calls[s]) data_after_zero[s]++;
      if (g_deadline_abs && vk_now() >= g_deadline_abs) late_chunks++;
      for (size_t i = 0; i < size; i++) {
        uint8_t e;
        if (!CH || !expected_byte(s, got[s] + (uint32_t) i, &e) || e != buffer[i]) { bad_bytes++; break; }
      }
      got[s] += (uint32_t) size;
    }
  }
  if (idx == fail_at) { error_returned = 1; return fail_value; }
  return 0;
}

static void c16_hang(const char *where)
{
  vk_obs("hang(%s)", where);
  if (!strncmp(where, "livelock", 8)) { vk_violation("C16", "busy-wait", key, "drain spins without blocking or returning (%s)", where); return; }
  /* drain blocks for as long as the child keeps a stream open and never ends: only with an idle child, which these scripts do not have */
  vk_violation("C16", "unexpected-hang", key, "blocked forever in %s (child state %d, step %d of %d)", where, CH ? CH->state : -1, CH ? CH->pos : -1, CH ? CH->nsteps : -1);
}

struct dcfg { int script, size, em, sm, failk, deadline, api, realloc_fault, prefail, late; };

static int is_interleaving(const char *s, size_t n, uint32_t n1, uint32_t n2)
{
  /* is s an interleaving of stream-1 bytes [0,n1) and stream-2 bytes [0,n2)? small inputs only */
  if (n != n1 + n2) return 0;
  if (n1 > 64 || n2 > 64) return 1;
  static unsigned char dp[66][66];
  memset(dp, 0, sizeof dp);
  dp[0][0] = 1;
  for (uint32_t i = 0; i <= n1; i++)
    for (uint32_t j = 0; j <= n2; j++) {
      if (!dp[i][j]) continue;
      if (i < n1 && (uint8_t) s[i + j] == vc_pat(1, i)) dp[i + 1][j] = 1;
      if (j < n2 && (uint8_t) s[i + j] == vc_pat(2, j)) dp[i][j + 1] = 1;
    }
  return dp[n1][n2];
}

static void body(const struct dcfg *c, int tier)
{
  char script[128];
  snprintf(script, sizeof script, d_scripts[c->script], c->size, c->size);
  memset(&vk_cfg, 0, sizeof vk_cfg);
  vk_cfg.sched_on = 1;
  vk_cfg.sched_bound = c->size <= 1 && c->sm == SM_REC && (tier ? c->deadline <= 2 : !c->deadline) ? 2 : 1;
  if (c->size > CAP) vk_cfg.sched_bound = 1;
  vk_cfg.total_bound = 2;
  vk_cfg.vlimit = 24;
  vk_cfg.hello_lite = 1;
  if (c->deadline) {
    /* while a call is blocked without an OS timeout, time may pass too: 0 or 5 ms (past every deadline used here) */
    vk_cfg.elapsed_inf_n = 2;
    vk_cfg.elapsed_inf[0] = 0;
    vk_cfg.elapsed_inf[1] = 5;
  }
  if (c->realloc_fault) {
    vk_cfg.faults_on = 1;
    vk_cfg.fault_bound = 1;
    vk_cfg.fault_calls = 1ull << C_REALLOC;
  }
  snprintf(key, sizeof key, "h_c16|%s|script=%s|size=%d|stderr=%s|sink=%s@%d|deadline=%d|%s", c->api ? "run_ex" : "drain", d_scripts[c->script], c->size,
           em_names[c->em], sm_names[c->sm], c->failk, c->deadline, c->realloc_fault ? "realloc-faults" : c->prefail ? "after-failed-start-with-deadline" : c->late ? "drain-called-after-the-deadline" : "no-faults");
  hx_desc("%s", key);
  snprintf(key, sizeof key, "h_c16|%s|stderr=%s|sink=%s%s", c->api ? "run_ex" : "drain", em_names[c->em], sm_names[c->sm], c->prefail ? "|second-start" : "");
  hx_begin();
  vk_set_hang_hook(c16_hang);
  CH = NULL;
  ncalls = 0;
  memset(got, 0, sizeof got);
  memset(zero_calls, 0, sizeof zero_calls);
  memset(data_after_zero, 0, sizeof data_after_zero);
  bad_bytes = calls_after_error = error_returned = 0;
  g_deadline_abs = 0;
  late_chunks = 0;
  fail_at = -1;
  em = c->em;
  merged = em == EM_MERGED;
  reproc_options o;
  memset(&o, 0, sizeof o);
  o.redirect.err.type = em == EM_PIPE ? REPROC_REDIRECT_PIPE : em == EM_MERGED ? REPROC_REDIRECT_STDOUT : REPROC_REDIRECT_PARENT;
  o.redirect.in.type = REPROC_REDIRECT_DISCARD;
  o.deadline = c->deadline;
  /* the negative value is the sink's own business; every other position uses one that collides with a value the library gives a meaning to */
  if (c->sm == SM_FAILNEG) { fail_at = c->failk; fail_value = (c->failk % 2) ? -5 : REPROC_EPIPE; }
  if (c->sm == SM_FAILPOS) { fail_at = c->failk; fail_value = 7; }
  char *s_out = NULL, *s_err = NULL;
  const char *pre = "pre:";
  size_t prelen = 0;
  reproc_sink so = { rec_sink, NULL }, se = { rec_sink, NULL };
  if (c->sm >= SM_STR_NULL) {
    if (c->sm != SM_STR_NULL) {
      prelen = strlen(pre);
      s_out = vk_malloc(prelen + 1);
      memcpy(s_out, pre, prelen + 1);
    }
    so = reproc_sink_string(&s_out);
    se = c->sm == SM_STR_SAME ? reproc_sink_string(&s_out) : reproc_sink_string(&s_err);
  }
  if (c->prefail) vk_script(""); /* consumed by the fork of the start that fails */
  vk_script(script);
  int r;
  reproc_t *p = NULL;
  if (c->api == API_DRAIN && c->prefail) {
    /* the handle's first start, with a deadline, fails; the start that counts has none: nothing of the first may cut the drain short */
    static const char *const missing[] = { "/nonexistent/c16-program", NULL };
    reproc_options ob;
    memset(&ob, 0, sizeof ob);
    ob.deadline = 1;
    p = hx_new();
    vk_cfg.sched_on = 0;
    int rb = hx_start(p, missing, ob);
    vk_cfg.sched_on = 1;
    if (rb >= 0) vk_finish(OUT_INFRA, "start of a missing program succeeded");
    vk_advance(2);
  }
  int64_t t0 = vk_now();
  if (c->api == API_DRAIN) {
    if (!p) p = hx_new();
    vk_cfg.sched_on = 0;
    r = hx_start(p, hx_helper_argv(), o);
    vk_cfg.sched_on = 1;
    if (r < 0) vk_finish(OUT_INFRA, "start failed: %d", r);
    CH = &vk_children[vk_nchildren - 1];
    for (int i = 1; i < 3; i++) {
      int f = ident_parent_fd_for_stream(CH, i);
      if (f >= 0) fcntl(f, F_SETPIPE_SZ, CAP);
    }
    if (c->deadline) g_deadline_abs = t0 + c->deadline;
    if (c->late) {
      /* the caller gets round to draining only after the deadline, with output already waiting in the pipe */
      vk_cfg.sched_on = 0;
      if (CH->state == CH_RUNNING && vk_child_enabled(CH)) vk_child_step(CH);
      vk_cfg.sched_on = 1;
      vk_advance(c->deadline + 1);
    }
    vk_faults_armed = 1;
    hx_last_api = vk_api_begin("drain()");
    r = reproc_drain(p, so, se);
    vk_api_end(r);
    vk_faults_armed = 0;
  } else {
    /* run_ex creates its own handle; the child appears during the call */
    vk_faults_armed = 1;
    hx_last_api = vk_api_begin("run_ex()");
    extern struct vk_child vk_children[];
    CH = &vk_children[0]; /* filled in by the fork inside the call; the sink only looks at it after that */
    r = reproc_run_ex(hx_helper_argv(), o, so, se);
    vk_api_end(r);
    vk_faults_armed = 0;
    if (!vk_nchildren) vk_finish(OUT_INFRA, "run_ex did not start anything: %d", r);
  }
  int64_t t1 = vk_now();
  int drain_api = hx_last_api;
  vk_obs("%s=%s calls=%d out=%u err=%u", c->api ? "run_ex" : "drain", hx_errname(r), ncalls, got[1], got[2]);
  int injected_enomem = 0;
  for (int i = 0; i < S->nevents; i++)
    if (S->ev[i].api == drain_api && S->ev[i].call == C_REALLOC && S->ev[i].injected) injected_enomem = 1;

  int out_pipe = 1, err_pipe = em == EM_PIPE;
  int64_t D = c->deadline ? t0 + c->deadline : INT64_MAX;
  if (late_chunks && c->api == API_DRAIN)
    vk_violation("C16", "no-chunk-after-deadline", key, "%d chunk(s) were handed to a sink after the deadline had expired (an expired deadline yields the timeout error, nothing else)", late_chunks);
  if (c->late && r != REPROC_ETIMEDOUT) vk_violation("C16", "deadline-yields-timeout", key, "drain was called after the deadline had expired and returned %s", hx_errname(r));
  /* whatever drain is waiting in, it must not still be waiting there once the deadline has passed */
  if (c->deadline) {
    for (int i = 0; i < S->nevents; i++) {
      struct vk_event *e = &S->ev[i];
      if (e->api != drain_api || e->side != 0 || !e->blocked) continue;
      /* (a call entered at or after the deadline belongs to the stop sequence that run_ex performs afterwards: that one may wait) */
      if (e->t < D && e->t + e->blocked_ms > D) {
        vk_violation("C16", "blocked-past-deadline", key, "inside drain/run a %s call entered at +%lld ms stayed blocked for %d ms, past the deadline at +%d ms", vk_call_names[e->call],
                     (long long) (e->t - t0), e->blocked_ms, c->deadline);
        break;
      }
    }
  }

  if (c->sm < SM_STR_NULL) {
    /* protocol over the recorded calls */
    if (ncalls < 1 || calls[0].stream != REPROC_STREAM_IN || calls[0].size != 0)
      vk_violation("C16", "initial-calls", key, "the first sink call is not (stream in, size 0)");
    else if (!(fail_at == 0) && (ncalls < 2 || calls[1].stream != REPROC_STREAM_IN || calls[1].size != 0))
      vk_violation("C16", "initial-calls", key, "the second sink call is not (stream in, size 0)");
    else vk_hit(CL_INIT_CALLS);
    for (int i = 2; i < ncalls && i < 8192; i++)
      if (calls[i].stream == REPROC_STREAM_IN) { vk_violation("C16", "stream-tags", key, "sink call %d is tagged as the input stream", i); break; }
    if (bad_bytes) vk_violation("C16", "chunks-match-stream", key, "a chunk handed to a sink differs from what the child wrote on that stream");
    else if (got[1] + got[2]) vk_hit(CL_CHUNKS_OK);
    if (!err_pipe && (got[2] || zero_calls[2])) vk_violation("C16", "stream-tags", key, "the stderr sink was called although stderr is not a pipe");
    for (int s = 1; s <= 2; s++) {
      if (zero_calls[s] > 1) vk_violation("C16", "size-zero-call-once", key, "stream %d got %d size-zero calls", s, zero_calls[s]);
      if (data_after_zero[s]) vk_violation("C16", "size-zero-call-last", key, "stream %d got data after its size-zero call", s);
    }
    if (calls_after_error) vk_violation("C16", "stop-at-sink-error", key, "%d sink call(s) after a sink had returned a non-zero value", calls_after_error);
    else if (error_returned) vk_hit(CL_NO_CALL_AFTER_ERROR);
  }

  int expect_sink_error = error_returned;
  if (c->api == API_DRAIN) {
    if (expect_sink_error) {
      if (r != fail_value) vk_violation("C16", "sink-error-returned", key, "a sink returned %d but drain returned %s", fail_value, hx_errname(r));
      else vk_hit(fail_at == 0 ? CL_SINK_ERR_FIRST : (fail_at == ncalls - 1 && zero_calls[1] + zero_calls[2] >= 1) ? CL_SINK_ERR_LAST : CL_SINK_ERR_MID);
    } else if (r == 0) {
      /* both output streams ended: each piped stream got all its bytes and its size-zero call */
      int ok = 1;
      for (int s = 1; s <= 2; s++) {
        int is_pipe = s == 1 ? out_pipe : err_pipe;
        if (!is_pipe) continue;
        if (c->sm < SM_STR_NULL && zero_calls[s] != 1) { vk_violation("C16", "size-zero-call-once", key, "drain returned 0 but stream %d got %d size-zero calls", s, zero_calls[s]); ok = 0; }
        if (c->sm < SM_STR_NULL && got[s] != total_written(s)) { vk_violation("C16", "returns-0-only-when-ended", key, "drain returned 0 with %u of %u bytes of stream %d delivered", got[s], total_written(s), s); ok = 0; }
      }
      /* and the child really has nothing open any more */
      if (CH->state == CH_RUNNING && !(CH->closed_fd[1] && (CH->closed_fd[2] || !(err_pipe || merged))))
        { vk_violation("C16", "returns-0-only-when-ended", key, "drain returned 0 while the child still holds an output stream open"); ok = 0; }
      if (ok) { vk_hit(CL_RETURN0_BOTH_ENDED); if (c->sm < SM_STR_NULL) vk_hit(CL_CLOSE_CALL_ONCE); }
    } else if (r == REPROC_ETIMEDOUT) {
      if (t1 < D) vk_violation("C16", "timeout-only-at-deadline", key, "drain returned ETIMEDOUT at +%lld ms, the deadline is +%d ms", (long long) (t1 - t0), c->deadline);
      else { vk_hit(CL_TIMEOUT); vk_hit(got[1] + got[2] ? CL_DEADLINE_AFTER_OUTPUT : CL_DEADLINE_BEFORE_OUTPUT); }
    } else if (r == REPROC_ENOMEM && injected_enomem) {
      /* checked with the string below */
    } else {
      vk_violation("C16", "drain-result", key, "drain returned %s", hx_errname(r));
    }
    if (c->deadline && t1 > D && r != REPROC_ETIMEDOUT && !expect_sink_error && !(r == 0 && t1 == D) && r != REPROC_ENOMEM) {
      /* returned after the deadline with something else: only acceptable if the last stream closed before it (ambiguity accepted in DESIGN.md 1) */
      if (r != 0) vk_violation("C16", "deadline-yields-timeout", key, "the deadline passed at +%d ms, drain returned %s at +%lld ms", c->deadline, hx_errname(r), (long long) (t1 - t0));
    }
  } else {
    /* run_ex: exit status after drain + stop, or the first error */
    if (expect_sink_error && fail_value < 0) {
      if (r != fail_value) vk_violation("C16", "run-first-error", key, "a sink returned %d but run_ex returned %s", fail_value, hx_errname(r));
    } else if (r == REPROC_ETIMEDOUT) {
      if (!c->deadline || t1 < D) vk_violation("C16", "timeout-only-at-deadline", key, "run_ex returned ETIMEDOUT before any deadline");
      else vk_hit(CL_TIMEOUT);
    } else if (r == REPROC_ENOMEM && injected_enomem) {
    } else if (r >= 0) {
      if (CH->state != CH_REAPED && CH->state != CH_ZOMBIE) vk_violation("C16", "run-status", key, "run_ex returned %d while the child is still running", r);
      else if (r != CH->expect_status) vk_violation("C16", "run-status", key, "run_ex returned %d, the child ended with %d", r, CH->expect_status);
      else vk_hit(CL_RUN_STATUS);
    } else {
      vk_violation("C16", "run-result", key, "run_ex returned %s", hx_errname(r));
    }
  }

  /* string sinks */
  if (c->sm >= SM_STR_NULL) {
    const char *so_s = s_out ? s_out : "";
    const char *se_s = s_err ? s_err : "";
    size_t lo = strlen(so_s), le = strlen(se_s);
    int ok = 1;
    if (lo < prelen || memcmp(so_s, pre, prelen) != 0) { vk_violation("C16", "string-keeps-previous-content", key, "the string no longer starts with its previous content (%s)", s_out ? "changed" : "NULL"); ok = 0; }
    else if (c->sm == SM_STR_SAME && err_pipe && !merged) {
      /* one string fed by both sinks: an interleaving that keeps each stream's order (checked when complete) */
      if (r == 0 && c->api == API_DRAIN && !is_interleaving(so_s + prelen, lo - prelen, total_written(1), total_written(2))) {
        vk_violation("C16", "string-content", key, "the shared string (%zu bytes) is not an interleaving of the two streams (%u + %u bytes)", lo - prelen, total_written(1), total_written(2));
        ok = 0;
      }
    } else {
      /* prefix of the stream, complete when drain reported both ended */
      for (size_t i = 0; i + prelen < lo && ok; i++) {
        uint8_t e;
        if (!expected_byte(1, (uint32_t) i, &e) || (uint8_t) so_s[prelen + i] != e) { vk_violation("C16", "string-content", key, "stdout string differs from the stream at byte %zu", i); ok = 0; }
      }
      for (size_t i = 0; i < le && ok; i++) {
        uint8_t e;
        if (!expected_byte(2, (uint32_t) i, &e) || (uint8_t) se_s[i] != e) { vk_violation("C16", "string-content", key, "stderr string differs from the stream at byte %zu", i); ok = 0; }
      }
      if (ok && r == 0 && c->api == API_DRAIN && (lo - prelen != total_written(1) || (err_pipe && le != total_written(2)))) {
        vk_violation("C16", "string-complete", key, "drain returned 0 but the strings hold %zu/%u and %zu/%u bytes", lo - prelen, total_written(1), le, total_written(2));
        ok = 0;
      }
    }
    if (ok) vk_hit(injected_enomem ? CL_STRING_ENOMEM_INTACT : CL_STRING_OK);
    if (injected_enomem && r != REPROC_ENOMEM && c->api == API_DRAIN) vk_violation("C16", "enomem-returned", key, "an allocation failed in the string sink but drain returned %s", hx_errname(r));
    if (s_out) reproc_free(s_out);
    if (s_err) reproc_free(s_err);
  }

  /* clean up outside the property */
  vk_cfg.sched_on = 0;
  if (p) {
    reproc_stop_actions k = { { REPROC_STOP_KILL, REPROC_INFINITE }, { REPROC_STOP_NOOP, 0 }, { REPROC_STOP_NOOP, 0 } };
    reproc_stop(p, k);
    reproc_destroy(p);
  }
  if (vk_heap_live_count() || vk_fd_ledger_open_count() || vk_foreign_frees)
    vk_violation("C05", "ledgers-after-drain", key, "after drain/run: %d block(s), %d descriptor(s) left, %d foreign free(s)", vk_heap_live_count(), vk_fd_ledger_open_count(), vk_foreign_frees);
}

static struct dcfg *cfgs[2];
static long ncfgs[2];

static void build(void)
{
  static int done;
  if (done) return;
  done = 1;
  for (int tier = 0; tier < 2; tier++) {
    static struct dcfg store[2][60000];
    long n = 0;
    for (int sc = 0; sc < NDS; sc++) {
      int has_size = strstr(d_scripts[sc], "%d") != NULL;
      for (int si = 0; si < (has_size ? d_nsizes[tier] : 1); si++)
        for (int e = 0; e < NEM; e++)
          for (int sm = 0; sm < NSM; sm++) {
            int nk = (sm == SM_FAILNEG || sm == SM_FAILPOS) ? (tier ? 9 : 5) : 1;
            for (int k = 0; k < nk; k++)
              for (int dl = 0; dl < (tier ? 4 : 2); dl++)
                for (int api = 0; api < NAPI; api++) {
                  int deadline = tier ? dl : (dl ? 2 : 0);
                  int size = has_size ? d_sizes[tier][si] : 0;
                  if (!tier && api == API_RUNEX && ((sm == SM_FAILPOS && size > 1) || k > 1)) continue;
                  /* every blocked poll under a deadline has one alternative per elapsed millisecond: keep that product to small payloads in the quick tier */
                  if (!tier && deadline && ((size > 1 && !(size == CAP && sm == SM_REC)) || sm == SM_FAILPOS || sm == SM_STR_NULL || k > 1)) continue;
                  if (!tier && size > CAP && (sm == SM_FAILNEG || sm == SM_FAILPOS) && k > 2) continue;
                  for (int rf = 0; rf < (sm >= SM_STR_NULL ? 2 : 1); rf++) {
                    if (rf && size > CAP + 1) continue; /* growth steps of large strings are the same code path */
                    struct dcfg c = { sc, size, e, sm, k, deadline, api, rf, 0, 0 };
                    store[tier][n++] = c;
                    if (sm == SM_REC && !deadline && api == API_DRAIN && size <= 1 && !rf) { c.prefail = 1; store[tier][n++] = c; c.prefail = 0; }
                    if (sm == SM_REC && deadline && api == API_DRAIN && size >= 1 && size <= CAP && !rf && has_size) { c.late = 1; store[tier][n++] = c; }
                  }
                }
          }
    }
    cfgs[tier] = store[tier];
    ncfgs[tier] = n;
  }
}

static long c16_n(int tier) { build(); return ncfgs[tier]; }
static void c16_run(int tier, long cfg) { build(); body(&cfgs[tier][cfg], tier); }

const struct hx_harness h_c16 = { "C16", "h_c16", c16_n, c16_run, c16_clauses, NULL };
