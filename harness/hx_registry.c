#include "hx.h"
extern const struct hx_harness h_c01, h_c04, h_c05, h_c06, h_c12, h_c07, h_c15, h_c08, h_c09, h_c02, h_c17, h_c16, h_c10, h_c11, h_c13, h_c03, h_c03_deep, h_c14, h_c20, h_c16_cxx, h_c03_cxx, h_c15_cxx;
const struct hx_harness *const hx_harnesses[] = { &h_c01, &h_c04, &h_c05, &h_c06, &h_c12, &h_c07, &h_c15, &h_c08, &h_c09, &h_c02, &h_c17, &h_c16, &h_c10, &h_c11, &h_c13, &h_c03, &h_c03_deep, &h_c14, &h_c20, &h_c16_cxx, &h_c03_cxx, &h_c15_cxx, NULL };
