#include "hx.h"
extern const struct hx_harness h_c01;
const struct hx_harness *const hx_harnesses[] = { &h_c01, NULL };
