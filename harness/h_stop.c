/* h_stop.c — C07 (stop sequences) and C15 (destroy applies the stop policy). DESIGN.md 3/C07, 3/C15.
 * The oracle is a clause checker over observations only: signals sent (which, when, in which order),
 * the result, virtual call/return times, the child's exit time and reap state. */
#include "hx.h"

#include <errno.h>
#include <signal.h>
#include <stdio.h>
#include <string.h>
#include <sys/wait.h>

#define INF_T (INT64_MAX / 4)

enum { A_NOOP = 0, A_WAIT = 1, A_TERM = 2, A_KILL = 3, A_BAD = 7 };
static const int acts[5] = { A_NOOP, A_WAIT, A_TERM, A_KILL, A_BAD };
static const int tmos[4] = { 0, 2, -2 /* DEADLINE */, -1 /* INFINITE */ };

enum { CB_EXITS, CB_DIES_ON_TERM, CB_HANDLER, CB_IGNORES, NCB };
static const char *const cb_names[] = { "exits-by-itself", "dies-on-term", "term-handler-then-dies", "ignores-term" };
static const char *const cb_scripts[] = { "X5", "", "S15:H ; T15", "S15:I ;" };
enum { IS_RUNNING, IS_EXITED, IS_REAPED, IS_WAITFAIL, NIS };
static const char *const is_names[] = { "running", "exited-unreaped", "reaped", "exited,reap-interrupted" };
enum { VIA_STOP, VIA_DESTROY };

enum { CL_STATUS, CL_TIMEOUT, CL_EINVAL, CL_HANG, CL_SIG_ORDER, CL_SIG_TIME, CL_ALL_SLOTS, CL_ENDED_AT_EXIT, CL_DEFAULT_POLICY, CL_NONRUNNING_DESTROY,
       CL_SLOTS1, CL_SLOTS2, CL_SLOTS3, CL_ACTION_ERROR };
static const char *const stop_clauses[] = { "result-status", "result-timeout", "result-einval", "legit-hang", "signals-in-order", "signal-times-exact",
                                            "timeout-after-all-slots", "ended-when-child-exited", "all-noop-default-policy", "destroy-in-non-running-state",
                                            "one-slot-reached", "two-slots-reached", "three-slots-reached", "action-error", NULL };

struct cfg {
  int expired; /* the deadline has already passed when the stop sequence starts */
  int prefail; /* a failed start carrying a deadline precedes the real one on the same handle */
  int polled;   /* before the call, reproc_poll has already reported the handle's deadline as expired */
  int timejump; /* the clock may jump forward by 5 ms at one of the library's clock reads (preemption, a stepped wall clock) */
  int a[3], t[3];
  int deadline; /* ms, 0 none */
  int cb, is, via;
  int faults;
};

static struct cfg C;
static reproc_t *P;
static struct vk_child *CH;
static int64_t t0, start_time;
static int stop_api;
static char key[200];
static int evaluated;

/* ---- triple enumeration ---- */
static int triple_ok_quick(const int *ai, const int *ti)
{
  /* INFINITE only in the last non-noop slot; a noop slot's timeout is irrelevant: keep only timeout index 0 */
  int last = -1;
  for (int i = 0; i < 3; i++)
    if (acts[ai[i]] != A_NOOP) last = i;
  if (last < 0) {
    /* all noop: the timeouts are documented to be irrelevant (the default policy takes over whatever they say): a few non-zero settings */
    static const int keep[5][3] = { { 0, 0, 0 }, { 1, 0, 0 }, { 0, 0, 1 }, { 3, 0, 0 }, { 2, 2, 2 } };
    for (int k = 0; k < 5; k++)
      if (ti[0] == keep[k][0] && ti[1] == keep[k][1] && ti[2] == keep[k][2]) return 1;
    return 0;
  }
  for (int i = 0; i < 3; i++) {
    if (acts[ai[i]] == A_NOOP && ti[i] != 0) return 0;
    if (acts[ai[i]] == A_BAD && ti[i] != 0) return 0;
    if (tmos[ti[i]] == -1 && i != last) return 0;
  }
  return 1;
}

static int ntriples[2];
static int (*triples[2])[6];

static void build_triples(void)
{
  static int done;
  if (done) return;
  done = 1;
  for (int tier = 0; tier < 2; tier++) {
    static int store[2][8000][6];
    int n = 0;
    for (int k = 0; k < 8000; k++) {
      int ai[3] = { k % 5, (k / 5) % 5, (k / 25) % 5 }, ti[3] = { (k / 125) % 4, (k / 500) % 4, (k / 2000) % 4 };
      int keep;
      if (tier == 0) keep = triple_ok_quick(ai, ti);
      else {
        keep = 1;
        int all_noop = acts[ai[0]] == A_NOOP && acts[ai[1]] == A_NOOP && acts[ai[2]] == A_NOOP;
        for (int i = 0; i < 3; i++)
          if ((acts[ai[i]] == A_NOOP || acts[ai[i]] == A_BAD) && ti[i] != 0 && !all_noop) keep = 0; /* timeout of a noop/out-of-range slot is never read (all-noop: every setting, the default policy must take over) */
      }
      if (!keep) continue;
      for (int i = 0; i < 3; i++) { store[tier][n][i] = ai[i]; store[tier][n][3 + i] = ti[i]; }
      n++;
    }
    ntriples[tier] = n;
    triples[tier] = store[tier];
  }
}

/* per triple: deadline {none, 3, 3 and already expired} x child behaviour 4 x (initial state, via) in {run/stop, run/destroy, exited/stop,
 * reaped/stop, exited/destroy}. The expired variant only exists for triples that look at the deadline (a DEADLINE timeout, or all-noop). */
static long prefix[2][2][8001]; /* [property: 0 = C07 (stop), 1 = C15 (destroy)][tier] */
static const int nsv2[2][2] = { { 3, 4 }, { 3, 3 } }; /* [property][tier]: the quick tier of C07 leaves the interrupted-reap state to C15 and C14 */

static int triple_uses_deadline(int tier, long tr)
{
  int all_noop = 1, dl = 0;
  for (int i = 0; i < 3; i++) {
    if (acts[triples[tier][tr][i]] != A_NOOP) all_noop = 0;
    if (acts[triples[tier][tr][i]] != A_NOOP && acts[triples[tier][tr][i]] != A_BAD && tmos[triples[tier][tr][3 + i]] == -2) dl = 1;
  }
  return all_noop || dl;
}

static void build_prefix(void)
{
  static int done;
  if (done) return;
  done = 1;
  build_triples();
  for (int m = 0; m < 2; m++)
    for (int tier = 0; tier < 2; tier++) {
      prefix[m][tier][0] = 0;
      for (long t = 0; t < ntriples[tier]; t++) prefix[m][tier][t + 1] = prefix[m][tier][t] + (triple_uses_deadline(tier, t) ? 3 : 2) * NCB * nsv2[m][tier];
    }
}

static long stop_n_mode(int m, int tier)
{
  build_prefix();
  return prefix[m][tier][ntriples[tier]];
}

/* quick tier of C07: the state "exited, reap interrupted" for every 8th triple (the thorough tier has it for all) */
static long waitfail_extras(int tier)
{
  build_prefix();
  return tier ? 0 : (long) ((ntriples[0] + 7) / 8) * 2 * NCB;
}

#define NPREFAIL07 (NCB * 3)
static long stop_n(int tier) { return stop_n_mode(0, tier) + waitfail_extras(tier) + NPREFAIL07; }

static void decode(int m, int tier, long cfg, struct cfg *c)
{
  build_prefix();
  long lo = 0, hi = ntriples[tier];
  while (hi - lo > 1) { long mid = (lo + hi) / 2; if (prefix[m][tier][mid] <= cfg) lo = mid; else hi = mid; }
  long tr = lo, v = cfg - prefix[m][tier][lo];
  int nd = triple_uses_deadline(tier, tr) ? 3 : 2;
  for (int i = 0; i < 3; i++) { c->a[i] = acts[triples[tier][tr][i]]; c->t[i] = tmos[triples[tier][tr][3 + i]]; }
  c->deadline = (v % nd) ? 3 : 0;
  c->expired = (v % nd) == 2;
  v /= nd;
  c->cb = (int) (v % NCB);
  v /= NCB;
  static const int isv[2][4][2] = { { { IS_RUNNING, VIA_STOP }, { IS_EXITED, VIA_STOP }, { IS_REAPED, VIA_STOP }, { IS_WAITFAIL, VIA_STOP } },
                                    { { IS_RUNNING, VIA_DESTROY }, { IS_EXITED, VIA_DESTROY }, { IS_WAITFAIL, VIA_DESTROY }, { 0, 0 } } };
  c->is = isv[m][v][0];
  c->via = isv[m][v][1];
  c->faults = 0;
}

/* ---- the oracle ---- */
struct slot { int act; int64_t tmo; /* effective */ int raw; };

static int64_t abs_deadline(void)
{
  return C.deadline > 0 ? start_time + C.deadline : -1; /* 0 and REPROC_INFINITE (-1) both mean: none */
}

/* slots actually in force (all-noop replaced), with start times tau[k] assuming the child is never seen exited */
static int plan(struct slot *s, int64_t *tau)
{
  int n = 0;
  int all_noop = C.a[0] == A_NOOP && C.a[1] == A_NOOP && C.a[2] == A_NOOP;
  int a[3] = { C.a[0], C.a[1], C.a[2] }, t[3] = { C.t[0], C.t[1], C.t[2] };
  if (all_noop) { a[0] = A_WAIT; t[0] = -2; a[1] = A_TERM; t[1] = -1; }
  int64_t now = t0;
  for (int i = 0; i < 3; i++) {
    if (a[i] == A_NOOP) continue;
    s[n].act = a[i];
    s[n].raw = t[i];
    tau[n] = now;
    int64_t T;
    if (a[i] == A_BAD) T = 0;
    else if (t[i] == -1) T = INF_T;
    else if (t[i] == -2) {
      int64_t d = abs_deadline();
      T = d < 0 ? INF_T : (now >= d ? 0 : d - now);
      if (now >= INF_T) T = 0;
    } else T = t[i];
    s[n].tmo = T;
    now = (now >= INF_T || T >= INF_T) ? INF_T : now + T;
    n++;
  }
  tau[n] = now;
  return n;
}

enum { R_VALUE, R_HANG, R_DESTROY };

static void evaluate(int kind, int r, const char *where)
{
  if (evaluated) return;
  evaluated = 1;
  const char *prop = C.via == VIA_DESTROY ? "C15" : "C07";
  int64_t t1 = vk_now();
  struct slot s[3];
  int64_t tau[4];
  int m = plan(s, tau);
  struct vk_child *c = CH;
  int reaped_now = c->state == CH_REAPED;
  int exited = c->state == CH_ZOMBIE || c->state == CH_REAPED;
  int64_t te = exited ? c->exit_time : INF_T;

  /* signals sent during this call */
  int sigs[16], nsig = 0;
  int64_t sigt[16];
  for (int i = 0; i < c->nsigs; i++)
    if (c->sigs[i].api == stop_api && nsig < 16) { sigs[nsig] = c->sigs[i].sig; sigt[nsig] = c->sigs[i].t; nsig++; }

  if (C.is == IS_REAPED) {
    /* cached status, nothing sent; an out-of-range first slot may also answer EINVAL */
    if (nsig) vk_violation("C06", "signal-after-reap", key, "%d signal(s) sent by a stop on an already reaped child", nsig);
    if (kind == R_VALUE) {
      int first_bad = m > 0 && s[0].act == A_BAD;
      if (!(r == c->expect_status || (first_bad && r == REPROC_EINVAL)))
        vk_violation(prop, "reaped-cached-status", key, "stop on a reaped child returned %s, the status is %d", hx_errname(r), c->expect_status);
      else vk_hit(CL_STATUS);
      if (t1 != t0) vk_violation(prop, "reaped-no-wait", key, "stop on a reaped child took %lld ms", (long long) (t1 - t0));
    }
    return;
  }

  /* (i) the signals are those of the action slots s1..sk, in order, each once */
  int exp_sig[3], exp_slot[3], ne = 0;
  for (int k = 0; k < m; k++)
    if (s[k].act == A_TERM || s[k].act == A_KILL) { exp_sig[ne] = s[k].act == A_TERM ? SIGTERM : SIGKILL; exp_slot[ne] = k; ne++; }
  int order_ok = nsig <= ne;
  for (int i = 0; i < nsig && order_ok; i++)
    if (sigs[i] != exp_sig[i]) order_ok = 0;
  int relaxed = S->used[K_TIME] > 0; /* the clock jumped: instants cannot be predicted; order, completeness and liveness still can */
  if (!order_ok) {
    char got[64] = "", want[64] = "";
    for (int i = 0; i < nsig; i++) snprintf(got + strlen(got), sizeof got - strlen(got), "%d ", sigs[i]);
    for (int i = 0; i < ne; i++) snprintf(want + strlen(want), sizeof want - strlen(want), "%d ", exp_sig[i]);
    vk_violation(prop, "signals-in-order", key, "signals sent: [%s] is not a prefix of the actions' signals [%s]", got, want);
    return;
  }
  vk_hit(CL_SIG_ORDER);
  if (relaxed) {
    if (kind == R_HANG) {
      /* waiting forever is legitimate only in a slot with an infinite wait, with every signalling action up to it performed and a child that stays */
      int ok = 0, need = 0;
      for (int j = 0; j < m; j++) {
        need += s[j].act == A_TERM || s[j].act == A_KILL;
        if (s[j].tmo >= INF_T && nsig == need && !exited) ok = 1;
      }
      if (!ok) vk_violation(prop, "unexpected-hang", key, "after a clock jump: blocked forever in %s with %d signal(s) sent, although no wait of the policy in force at that point is infinite", where, nsig);
      else vk_hit(CL_HANG);
    } else if (kind == R_VALUE && r >= 0) {
      if (!reaped_now || r != c->expect_status) vk_violation(prop, "status-iff-reaped", key, "after a clock jump: returned %d, child state %d, status %d", r, c->state, c->expect_status);
    } else if (kind == R_DESTROY) {
      int all_noop = C.a[0] == A_NOOP && C.a[1] == A_NOOP && C.a[2] == A_NOOP;
      if (all_noop && !reaped_now) vk_violation("C15", "default-never-abandons", key, "after a clock jump: destroy returned without the child being reaped");
    }
    return;
  }
  /* (ii) each action happens exactly when the waits before it have expired (virtual clock, no clock deviations) */
  for (int i = 0; i < nsig; i++) {
    if (sigt[i] != tau[exp_slot[i]]) {
      vk_violation(prop, "signal-time", key, "signal %d was sent %lld ms after the call, its slot starts at %lld ms", sigs[i], (long long) (sigt[i] - t0),
                   (long long) (tau[exp_slot[i]] - t0));
      return;
    }
    /* (iii) nothing is sent once the child has been seen exited: a signal strictly after the exit instant is too late */
    /* (the first slot's action cannot know about an exit that happened before the call: only a wait finds out) */
    if (sigt[i] > te && exp_slot[i] > 0) {
      vk_violation(prop, "signal-after-exit", key, "signal %d sent at +%lld ms although the child had exited at +%lld ms", sigs[i],
                   (long long) (sigt[i] - t0), (long long) (te - t0));
      return;
    }
  }
  if (nsig) vk_hit(CL_SIG_TIME);

  /* how many slots were reached, judged from time: slot k is reached iff tau[k] <= end of the call */
  int64_t tend = kind == R_HANG ? INF_T : t1;

  if (kind == R_VALUE && r >= 0) {
    /* (iv) status <=> exited and reaped */
    if (!reaped_now) {
      vk_violation(prop, "status-iff-reaped", key, "returned %d but the child has not been reaped (state %d)", r, c->state);
      return;
    }
    if (r != c->expect_status) {
      vk_violation(prop, "status-value", key, "returned %d, the child ended with %d", r, c->expect_status);
      return;
    }
    int64_t want = te > t0 ? te : t0;
    if (t1 != want) {
      vk_violation(prop, "ends-when-child-exits", key, "the child exited at +%lld ms but the call returned at +%lld ms", (long long) (te - t0), (long long) (t1 - t0));
      return;
    }
    vk_hit(CL_STATUS);
    if (te > t0) vk_hit(CL_ENDED_AT_EXIT);
  } else if (kind == R_VALUE && r == REPROC_ETIMEDOUT) {
    if (reaped_now) { vk_violation(prop, "timeout-iff-unreaped", key, "returned ETIMEDOUT although the child was reaped"); return; }
    for (int k = 0; k < m; k++)
      if (s[k].act == A_BAD) { vk_violation(prop, "einval-on-bad-slot", key, "returned ETIMEDOUT although an out-of-range action was reached"); return; }
    if (nsig != ne) { vk_violation(prop, "timeout-after-all-slots", key, "returned ETIMEDOUT after %d of %d signalling actions", nsig, ne); return; }
    if (tau[m] >= INF_T || t1 != tau[m]) {
      vk_violation(prop, "timeout-time", key, "returned ETIMEDOUT at +%lld ms, the waits add up to %lld ms", (long long) (t1 - t0),
                   tau[m] >= INF_T ? -1LL : (long long) (tau[m] - t0));
      return;
    }
    /* every wait expired: no wait may have been in a position to see the exit */
    for (int j = 0; j < m; j++) {
      int sees = tau[j] > te || (s[j].tmo > 0 && tau[j] <= te && te < tau[j] + s[j].tmo);
      if (sees) {
        vk_violation(prop, "timeout-although-exited", key, "returned ETIMEDOUT at +%lld ms but the child had exited at +%lld ms, inside or before slot %d",
                     (long long) (t1 - t0), (long long) (te - t0), j + 1);
        return;
      }
    }
    vk_hit(CL_TIMEOUT);
    vk_hit(CL_ALL_SLOTS);
  } else if (kind == R_VALUE && r == REPROC_EINVAL) {
    int found = 0;
    for (int k = 0; k < m; k++)
      if (s[k].act == A_BAD && tau[k] < INF_T && t1 == tau[k]) {
        int before = 0;
        for (int j = 0; j < k; j++) before += s[j].act == A_TERM || s[j].act == A_KILL;
        if (nsig == before) found = 1;
      }
    if (!found) { vk_violation(prop, "einval-only-on-reached-bad-slot", key, "returned EINVAL at +%lld ms with %d signal(s) sent, which matches no out-of-range slot", (long long) (t1 - t0), nsig); return; }
    vk_hit(CL_EINVAL);
  } else if (kind == R_VALUE) {
    /* an error: only from a failed action (faults) */
    int inj = 0;
    for (int i = 0; i < S->nevents; i++)
      if (S->ev[i].api == stop_api && S->ev[i].injected > 0 && r == -S->ev[i].injected) inj = 1;
    if (!inj) { vk_violation(prop, "unexpected-error", key, "returned %s with no failing call behind it", hx_errname(r)); return; }
    vk_hit(CL_ACTION_ERROR);
  } else if (kind == R_HANG) {
    /* legitimate only inside a slot that waits forever while the child will not end */
    int k = nsig ? exp_slot[nsig - 1] : -1;
    /* the slot in progress: the last one whose start time has been reached */
    int cur = -1;
    for (int j = 0; j < m; j++)
      if (tau[j] <= vk_now()) cur = j;
    if (cur < 0 || s[cur].tmo < INF_T || exited || strcmp(where, "poll")) {
      vk_violation(prop, "unexpected-hang", key, "blocked forever in %s at +%lld ms (slot %d, child state %d)", where, (long long) (vk_now() - t0), cur, c->state);
      return;
    }
    /* all signalling actions up to the current slot must have been performed */
    int need = 0;
    for (int j = 0; j <= cur; j++) need += s[j].act == A_TERM || s[j].act == A_KILL;
    if (nsig != need) { vk_violation(prop, "hang-before-actions", key, "waiting forever after %d of %d signalling actions", nsig, need); return; }
    (void) k;
    vk_hit(CL_HANG);
  } else if (kind == R_DESTROY) {
    /* no result: judge from the child's state */
    if (reaped_now) {
      int64_t want = te > t0 ? te : t0;
      if (t1 != want) { vk_violation(prop, "ends-when-child-exits", key, "destroy: the child exited at +%lld ms but destroy returned at +%lld ms", (long long) (te - t0), (long long) (t1 - t0)); return; }
      vk_hit(CL_STATUS);
    } else {
      /* left running or as a zombie: only after a timed-out policy or a reached out-of-range slot */
      int ok = 0;
      if (tau[m] < INF_T && t1 == tau[m] && nsig == ne) {
        ok = 1;
        for (int k = 0; k < m; k++) if (s[k].act == A_BAD) ok = 0;
        if (ok) vk_hit(CL_TIMEOUT);
      }
      for (int k = 0; k < m && !ok; k++)
        if (s[k].act == A_BAD && tau[k] < INF_T && t1 == tau[k]) { ok = 1; vk_hit(CL_EINVAL); }
      if (!ok) { vk_violation(prop, "destroy-abandons-child", key, "destroy returned at +%lld ms leaving the child in state %d although its policy had not run out", (long long) (t1 - t0), c->state); return; }
    }
    int all_noop = C.a[0] == A_NOOP && C.a[1] == A_NOOP && C.a[2] == A_NOOP;
    if (all_noop) {
      if (!reaped_now) { vk_violation("C15", "default-never-abandons", key, "default policy: destroy returned without the child being reaped"); return; }
      for (int i = 0; i < nsig; i++)
        if (abs_deadline() >= 0 ? sigt[i] < abs_deadline() : 1) {
          if (abs_deadline() < 0) { vk_violation("C15", "default-no-term-without-deadline", key, "default policy without deadline sent signal %d", sigs[i]); return; }
          vk_violation("C15", "default-term-after-deadline", key, "default policy sent signal %d before the deadline", sigs[i]);
          return;
        }
      vk_hit(CL_DEFAULT_POLICY);
    }
  }
  if (tend >= 0) {
    int reached = 0;
    for (int k = 0; k < m; k++) if (tau[k] <= tend && tau[k] < INF_T) reached++;
    if (reached >= 1 && reached <= 3) vk_hit(CL_SLOTS1 + reached - 1);
  }
}

/* Can the default schedule of this configuration be compared with a free run? In the default schedule finite waits expire and the child only
 * moves during an infinite wait; the autonomous helper makes its first move after vk_autonomous_gap_ms, later than all finite waits together. What
 * a free run cannot reproduce is a zero-timeout look at a child that a signal has just been sent to: how fast a signal kills is up to the kernel. */
static int free_run_comparable(void)
{
  if (C.faults || C.prefail || C.is == IS_WAITFAIL || C.timejump || C.polled) return 0;
  if (C.is != IS_RUNNING) return !(C.deadline > 0 && !C.expired && C.cb == CB_EXITS); /* the free run waits for the child's own exit: the deadline passes */
  struct slot s[3];
  int64_t tau[4];
  int m = plan(s, tau);
  for (int k = 0; k < m; k++) {
    int dying = 0;
    if (s[k].act == A_BAD) return 1;
    if (s[k].act == A_KILL) dying = 1;
    if (s[k].act == A_TERM) {
      if (C.cb == CB_EXITS || C.cb == CB_DIES_ON_TERM) dying = 1;
      /* a handled TERM kills the helper only at its next step, one gap later: not during the finite waits */
    }
    if (dying) return s[k].tmo >= 2; /* 60 real ms: room for the start-up time a loaded machine adds before an until-deadline slot */
    if (s[k].tmo >= INF_T) return 1;
  }
  return 1;
}

static void obs_signals(void)
{
  char b[64] = "";
  for (int i = 0; i < CH->nsigs; i++)
    if (CH->sigs[i].api == stop_api) snprintf(b + strlen(b), sizeof b - strlen(b), "%d,", CH->sigs[i].sig);
  vk_obs("signals=%s", b);
}

static void stop_hang(const char *where)
{
  vk_obs("hang(%s)", where);
  stop_api = vk_api_seq;
  evaluate(R_HANG, 0, where);
}

static void run_cfg(const char *prop_unused)
{
  (void) prop_unused;
  memset(&vk_cfg, 0, sizeof vk_cfg);
  vk_cfg.sched_on = 1;
  vk_cfg.sched_bound = hx_tier || C.deadline <= 0 ? 2 : 1; /* quick: two scheduling deviations without a deadline, one with */
  vk_cfg.vlimit = 24;
  vk_cfg.hello_lite = 1;
  vk_autonomous_gap_ms = 600;
  if (C.timejump) { vk_cfg.time_on = 1; vk_cfg.time_bound = 1; vk_cfg.time_jump = 7; } /* (not 5: deadline 3 minus 5 is -2, the one negative value the library maps to "do not wait") */ /* 20 nominal ms at the free runs' time scale: later than the 5 + 3 x 2 ms the finite waits can add up to */
  if (C.faults) {
    vk_cfg.faults_on = 1;
    vk_cfg.fault_bound = 1;
    vk_cfg.fault_calls = (1ull << C_KILL) | (1ull << C_POLL);
  }
  reproc_stop_actions sa = { { (REPROC_STOP) C.a[0], C.t[0] }, { (REPROC_STOP) C.a[1], C.t[1] }, { (REPROC_STOP) C.a[2], C.t[2] } };
  char sb[100];
  snprintf(key, sizeof key, "h_stop|%s|stop=%s|deadline=%d%s|child=%s|state=%s", C.via == VIA_DESTROY ? "destroy" : "stop",
           hx_stop_str(sa, sb, sizeof sb), C.deadline, C.expired ? "(expired)" : "", cb_names[C.cb], C.prefail ? "running-after-failed-start" : is_names[C.is]);
  hx_desc("%s", key);
  /* violation keys name the call path, the child behaviour and the handle state, not the triple: one defect, one key */
  snprintf(key, sizeof key, "h_stop|%s|child=%s|state=%s", C.via == VIA_DESTROY ? "destroy" : "stop", cb_names[C.cb],
           C.prefail ? "running-after-failed-start" : is_names[C.is]);
  hx_begin();
  vk_set_hang_hook(stop_hang);
  evaluated = 0;
  if (C.prefail) vk_script(""); /* consumed by the fork of the start that fails */
  vk_script(cb_scripts[C.cb]);
  P = hx_new();
  reproc_options o;
  memset(&o, 0, sizeof o);
  o.deadline = C.deadline;
  if (C.via == VIA_DESTROY) o.stop = sa;
  if (C.prefail) {
    const char *bad[] = { "/nonexistent/program", NULL };
    reproc_options ob = o;
    ob.deadline = 2;
    int rb = hx_start(P, bad, ob);
    if (rb >= 0) vk_finish(OUT_INFRA, "start of a missing program succeeded");
    vk_advance(1);
  }
  start_time = vk_now();
  int r = hx_start(P, hx_helper_argv(), o);
  if (r < 0 || vk_nchildren < 1) vk_finish(OUT_INFRA, "start failed in the stop harness: %d", r);
  CH = &vk_children[vk_nchildren - 1];
  /* initial state */
  if (C.is != IS_RUNNING) {
    if (CH->pos < CH->nsteps && vk_child_enabled(CH)) vk_child_step(CH);
    if (vk_cfg.passthru && C.cb == CB_EXITS) {
      /* free run: the helper exits by itself after its gap */
      siginfo_t si;
      waitid(P_PID, (id_t) CH->pid, &si, WEXITED | WNOWAIT);
      CH->state = CH_ZOMBIE;
    }
    if (CH->state == CH_RUNNING) {
      kill(CH->pid, SIGKILL);
      siginfo_t si;
      waitid(P_PID, (id_t) CH->pid, &si, WEXITED | WNOWAIT);
      CH->state = CH_ZOMBIE;
      CH->expect_status = 128 + SIGKILL;
      CH->exit_time = vk_now();
    }
    if (C.is == IS_REAPED) {
      vk_cfg.sched_on = 0;
      int w = hx_wait(P, REPROC_INFINITE);
      vk_cfg.sched_on = 1;
      if (w != CH->expect_status) vk_finish(OUT_INFRA, "setup wait returned %d", w);
    }
    if (C.is == IS_WAITFAIL) {
      /* an earlier wait found the child gone but its reap was interrupted by a signal: the handle is still running, the child still a zombie */
      vk_cfg.sched_on = 0;
      vk_force_fault(C_WAITPID, EINTR);
      int w = hx_wait(P, REPROC_INFINITE);
      vk_force_fault(0, 0);
      vk_cfg.sched_on = 1;
      if (w != -EINTR && w != CH->expect_status) vk_finish(OUT_INFRA, "setup wait with an interrupted reap returned %d", w);
      if (w >= 0) { C.is = IS_REAPED; } /* a library that retries the reap: then this is the reaped state */
    }
  }
  if (C.expired) vk_advance(5);
  if (C.polled) {
    /* the caller polls (as drain does) until the deadline is reported; only then does it stop / destroy */
    int so = vk_cfg.sched_on;
    vk_cfg.sched_on = 0;
    reproc_event_source src = { P, REPROC_EVENT_OUT | REPROC_EVENT_EXIT, 0 };
    int pr = hx_poll(&src, 1, REPROC_INFINITE);
    vk_cfg.sched_on = so;
    if (!(pr == 1 && (src.events & REPROC_EVENT_DEADLINE))) vk_finish(OUT_INFRA, "the poll before the stop returned %d events %x", pr, (unsigned) src.events);
  }
  vk_faults_armed = 1;
  t0 = vk_now();
  if (!vk_cfg.passthru) S->free_run_ok = free_run_comparable();
  if (C.via == VIA_STOP) {
    r = hx_stop(P, sa);
    stop_api = hx_last_api;
    vk_faults_armed = 0;
    obs_signals();
    evaluate(R_VALUE, r, "");
    /* clean up outside the property: make the child end, destroy */
    vk_cfg.sched_on = 0;
    if (CH->state == CH_RUNNING) {
      kill(CH->pid, SIGKILL);
      siginfo_t si;
      waitid(P_PID, (id_t) CH->pid, &si, WEXITED | WNOWAIT);
      CH->state = CH_ZOMBIE;
      CH->expect_status = 128 + SIGKILL;
    }
    if (CH->state == CH_ZOMBIE) reproc_wait(P, REPROC_INFINITE);
    reproc_destroy(P);
  } else {
    stop_api = vk_api_seq + 1; /* the destroy call about to be made */
    reproc_t *q = hx_destroy(P);
    stop_api = hx_last_api;
    vk_faults_armed = 0;
    obs_signals();
    if (q != NULL) vk_violation("C15", "destroy-returns-null", key, "destroy returned a non-null pointer");
    evaluate(R_DESTROY, 0, "");
    /* destroy releases everything, whatever happened to the child */
    if (vk_fd_ledger_open_count() || vk_heap_live_count())
      vk_violation("C15", "destroy-releases-all", key, "after destroy %d descriptor(s) and %d block(s) of the library remain", vk_fd_ledger_open_count(), vk_heap_live_count());
  }
}

static void c07_run(int tier, long cfg)
{
  long nmain = stop_n_mode(0, tier);
  if (cfg >= nmain + waitfail_extras(tier)) {
    /* a handle whose first start (with a deadline) failed and whose second start has none: stop sequences that look at the deadline */
    long v = cfg - nmain - waitfail_extras(tier);
    memset(&C, 0, sizeof C);
    C.prefail = 1;
    C.cb = (int) (v % NCB);
    v /= NCB;
    static const int pol[3][6] = { { A_NOOP, A_NOOP, A_NOOP, 0, 0, 0 }, { A_WAIT, A_KILL, A_NOOP, -2, -1, 0 }, { A_WAIT, A_TERM, A_KILL, -2, 2, -1 } };
    for (int i = 0; i < 3; i++) { C.a[i] = pol[v % 3][i]; C.t[i] = pol[v % 3][3 + i]; }
    C.via = VIA_STOP;
    C.is = IS_RUNNING;
    run_cfg("C07");
    return;
  }
  if (cfg >= nmain) {
    long e = cfg - nmain, tr = (e / (2 * NCB)) * 8, v = e % (2 * NCB);
    memset(&C, 0, sizeof C);
    for (int i = 0; i < 3; i++) { C.a[i] = acts[triples[tier][tr][i]]; C.t[i] = tmos[triples[tier][tr][3 + i]]; }
    C.deadline = (v % 2) ? 3 : 0;
    C.cb = (int) (v / 2);
    C.is = IS_WAITFAIL;
    C.via = VIA_STOP;
    run_cfg("C07");
    return;
  }
  decode(0, tier, cfg, &C);
  if (cfg % (tier ? 3 : 11) == 0) C.faults = 1; /* a failing kill(), a poll interrupted by a signal after any of the elapsed times */
  run_cfg("C07");
}

/* C15 adds the non-running handle states */
enum { D_NULL, D_NEVER_STARTED, D_FAILED_START, D_INVALID_OPTIONS, ND };
#define NPREFAIL (NCB * 3 * 2)
#define NINFDL (NCB * 2 * 2) /* the deadline option given as REPROC_INFINITE, the library's own word for "none" */
#define NTJ (NCB * 2 * 2)    /* a clock that jumps at one of the library's reads, for the policies that look at the deadline */
#define NPOLLED (3 * 2 * 2) /* the deadline has been reported by reproc_poll before the stop / destroy (child: dies on TERM, handler, ignores) */
static long c15_n(int tier) { return stop_n_mode(1, tier) + ND + NPREFAIL + NINFDL + NTJ + NPOLLED; }
static void c15_run(int tier, long cfg)
{
  long n = stop_n_mode(1, tier);
  if (cfg < n) {
    decode(1, tier, cfg, &C); /* the destroy half of the space; the stop half belongs to C07 */
    run_cfg("C15");
    return;
  }
  if (cfg >= n + ND + NPREFAIL + NINFDL + NTJ) {
    long v = cfg - n - ND - NPREFAIL - NINFDL - NTJ;
    memset(&C, 0, sizeof C);
    C.deadline = 3;
    C.polled = 1;
    C.cb = 1 + (int) (v % 3); /* not the child that exits by itself: the poll would report its exit */
    v /= 3;
    static const int pol4[2][6] = { { A_NOOP, A_NOOP, A_NOOP, 0, 0, 0 }, { A_WAIT, A_KILL, A_NOOP, -2, -1, 0 } };
    for (int i = 0; i < 3; i++) { C.a[i] = pol4[v % 2][i]; C.t[i] = pol4[v % 2][3 + i]; }
    v /= 2;
    C.via = v ? VIA_DESTROY : VIA_STOP;
    C.is = IS_RUNNING;
    run_cfg("C15");
    return;
  }
  if (cfg >= n + ND + NPREFAIL + NINFDL) {
    long v = cfg - n - ND - NPREFAIL - NINFDL;
    memset(&C, 0, sizeof C);
    C.deadline = 3;
    C.timejump = 1;
    C.cb = (int) (v % NCB);
    v /= NCB;
    static const int pol3[2][6] = { { A_NOOP, A_NOOP, A_NOOP, 0, 0, 0 }, { A_WAIT, A_KILL, A_NOOP, -2, -1, 0 } };
    for (int i = 0; i < 3; i++) { C.a[i] = pol3[v % 2][i]; C.t[i] = pol3[v % 2][3 + i]; }
    v /= 2;
    C.via = v ? VIA_DESTROY : VIA_STOP;
    C.is = IS_RUNNING;
    run_cfg("C15");
    return;
  }
  if (cfg >= n + ND + NPREFAIL) {
    long v = cfg - n - ND - NPREFAIL;
    memset(&C, 0, sizeof C);
    C.deadline = REPROC_INFINITE;
    C.cb = (int) (v % NCB);
    v /= NCB;
    static const int pol2[2][6] = { { A_NOOP, A_NOOP, A_NOOP, 0, 0, 0 }, { A_WAIT, A_KILL, A_NOOP, -2, -1, 0 } };
    for (int i = 0; i < 3; i++) { C.a[i] = pol2[v % 2][i]; C.t[i] = pol2[v % 2][3 + i]; }
    v /= 2;
    C.via = v ? VIA_DESTROY : VIA_STOP;
    C.is = IS_RUNNING;
    run_cfg("C15");
    return;
  }
  if (cfg >= n + ND) {
    /* a handle whose first start failed (with a deadline) and whose second start has none: nothing of the first may survive */
    long v = cfg - n - ND;
    memset(&C, 0, sizeof C);
    C.prefail = 1;
    C.cb = (int) (v % NCB);
    v /= NCB;
    static const int pol[3][6] = { { A_NOOP, A_NOOP, A_NOOP, 0, 0, 0 }, { A_WAIT, A_KILL, A_NOOP, -2, -1, 0 }, { A_WAIT, A_TERM, A_KILL, -2, 2, -1 } };
    for (int i = 0; i < 3; i++) { C.a[i] = pol[v % 3][i]; C.t[i] = pol[v % 3][3 + i]; }
    v /= 3;
    C.via = v ? VIA_DESTROY : VIA_STOP;
    C.is = IS_RUNNING;
    run_cfg("C15");
    return;
  }
  int d = (int) (cfg - n);
  memset(&vk_cfg, 0, sizeof vk_cfg);
  vk_cfg.vlimit = 24;
  static const char *const dn[] = { "null", "never-started", "failed-start", "invalid-options" };
  snprintf(key, sizeof key, "h_stop|destroy|state=%s", dn[d]);
  hx_desc("%s", key);
  hx_begin();
  struct vk_fdsnap before;
  vk_fd_snapshot(&before);
  reproc_t *p = NULL;
  if (d != D_NULL) p = hx_new();
  if (d == D_FAILED_START) {
    vk_cfg.real_exec = 1;
    const char *av[] = { "/nonexistent/program", NULL };
    reproc_options o;
    memset(&o, 0, sizeof o);
    int r = hx_start(p, av, o);
    if (r >= 0) vk_finish(OUT_INFRA, "start of a missing program succeeded");
  }
  if (d == D_INVALID_OPTIONS) {
    reproc_options o;
    memset(&o, 0, sizeof o);
    o.redirect.parent = o.redirect.discard = true;
    int r = hx_start(p, hx_helper_argv(), o);
    if (r != REPROC_EINVAL) vk_violation("C13", "parent-and-discard", key, "start with parent and discard returned %s", hx_errname(r));
  }
  int ev0 = S->nevents;
  reproc_t *q = hx_destroy(p);
  if (q != NULL) vk_violation("C15", "destroy-returns-null", key, "destroy returned a non-null pointer");
  int visible = vk_count_calls(hx_last_api, 0);
  if (d == D_NULL && S->nevents != ev0) vk_violation("C15", "destroy-null-noop", key, "destroy(NULL) made %d libc call(s)", S->nevents - ev0);
  if (visible) vk_violation("C15", "destroy-non-running-quiet", key, "destroy of a handle that is not running made %d poll/kill/waitpid/close call(s)", visible);
  int nv = S->nviol;
  hx_check_ledgers("C15", key, &before, 1);
  if (S->nviol == nv) vk_hit(CL_NONRUNNING_DESTROY);
}

const struct hx_harness h_c07 = { "C07", "h_c07", stop_n, c07_run, stop_clauses, NULL, 0, { 0, 0 }, 0, 331 };
const struct hx_harness h_c15 = { "C15", "h_c15", c15_n, c15_run, stop_clauses, NULL, 0, { 0, 0 }, 0, 211 };
