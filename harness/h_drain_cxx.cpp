// h_drain_cxx.cpp — C16, reproc++ half: the reproc::drain / reproc::run templates and sink::string, instantiated here
// and run over the same interposed C objects as everything else (reproc++/src/reproc.cpp compiled from /repo).
#include "hx.h"
#include "ident.h"

#include <reproc++/drain.hpp>
#include <reproc++/run.hpp>

#include <cstdio>
#include <cstring>
#include <fcntl.h>
#include <string>
#include <vector>

namespace {

const int CAP = 4096;
enum { EM_PIPE, EM_MERGED, EM_PARENT, NEM };
const char *const em_names[] = { "pipe", "stdout", "parent" };
const char *const x_scripts[] = { "W1:%d W2:5 X3", "W1:%d W2:5 W1:3 C1 W2:7 C2 X0", "W2:5 C2 W1:%d C1 X5", "C1 W2:%d X0", "X0" };
const int NXS = 5;
const int x_sizes[] = { 0, 1, CAP, 9000 };
enum { XM_REC, XM_FAIL, XM_STRING, XM_STRING_SAME, NXM };
const char *const xm_names[] = { "recording-lambda", "failing-lambda", "sink::string", "sink::string-shared" };

char key[200];
struct vk_child *CH;
int merged;

struct call { int stream; size_t size; };
std::vector<call> calls;
uint32_t got[3];
int zero_calls[3], data_after_zero[3], bad_bytes, calls_after_error, error_returned;
int fail_at;

int expected_byte(int s, uint32_t off, uint8_t *out)
{
  if (!CH) return 0;
  if (!merged) {
    if (off >= CH->wrote[s]) return 0;
    *out = vc_pat(s, off);
    return 1;
  }
  uint32_t pos = 0, cnt[3] = { 0, 0, 0 };
  for (int i = 0; i < CH->nworder; i++) {
    int fd = CH->worder[i].fd;
    uint32_t n = CH->worder[i].n;
    if (fd != 1 && fd != 2) continue;
    if (off < pos + n) { *out = vc_pat(fd, cnt[fd] + (off - pos)); return 1; }
    pos += n;
    cnt[fd] += n;
  }
  return 0;
}

uint32_t total_written(int s)
{
  if (!CH) return 0;
  if (!merged) return CH->wrote[s];
  return s == 1 ? CH->wrote[1] + CH->wrote[2] : 0;
}

std::error_code rec(reproc::stream stream, const uint8_t *buffer, size_t size)
{
  int idx = (int) calls.size();
  if (error_returned) calls_after_error++;
  calls.push_back({ (int) stream, size });
  if (stream == reproc::stream::out || stream == reproc::stream::err) {
    int s = (int) stream;
    if (size == 0) zero_calls[s]++;
    else {
      if (zero_calls[s]) data_after_zero[s]++;
      for (size_t i = 0; i < size; i++) {
        uint8_t e;
        if (!expected_byte(s, got[s] + (uint32_t) i, &e) || e != buffer[i]) { bad_bytes++; break; }
      }
      got[s] += (uint32_t) size;
    }
  }
  if (idx == fail_at) { error_returned = 1; return std::make_error_code(std::errc::io_error); }
  return {};
}

void cxx_hang(const char *where)
{
  vk_obs("hang(%s)", where);
  vk_violation("C16", "unexpected-hang", key, "reproc++ drain/run blocked forever in %s", where);
}

struct xcfg { int script, size, em, sm, failk, deadline, run; };

void body(const xcfg &c, int tier)
{
  char script[128];
  snprintf(script, sizeof script, x_scripts[c.script], c.size, c.size);
  memset(&vk_cfg, 0, sizeof vk_cfg);
  vk_cfg.sched_on = 1;
  vk_cfg.sched_bound = tier && c.size <= 1 ? 2 : 1;
  vk_cfg.vlimit = 24;
  vk_cfg.hello_lite = 1;
  if (c.deadline) { vk_cfg.elapsed_inf_n = 2; vk_cfg.elapsed_inf[0] = 0; vk_cfg.elapsed_inf[1] = 5; }
  snprintf(key, sizeof key, "h_c16_cxx|%s|script=%s|size=%d|stderr=%s|sink=%s@%d|deadline=%d", c.run ? "run" : "drain", x_scripts[c.script], c.size, em_names[c.em],
           xm_names[c.sm], c.failk, c.deadline);
  hx_desc("%s", key);
  snprintf(key, sizeof key, "h_c16_cxx|%s|stderr=%s|sink=%s", c.run ? "run" : "drain", em_names[c.em], xm_names[c.sm]);
  hx_begin();
  vk_set_hang_hook(cxx_hang);
  CH = nullptr;
  calls.clear();
  memset(got, 0, sizeof got);
  memset(zero_calls, 0, sizeof zero_calls);
  memset(data_after_zero, 0, sizeof data_after_zero);
  bad_bytes = calls_after_error = error_returned = 0;
  fail_at = c.sm == XM_FAIL ? c.failk : -1;
  merged = c.em == EM_MERGED;

  reproc::options o;
  o.redirect.err.type = c.em == EM_PIPE ? reproc::redirect::pipe : c.em == EM_MERGED ? reproc::redirect::stdout_ : reproc::redirect::parent;
  o.redirect.in.type = reproc::redirect::discard;
  o.deadline = reproc::milliseconds(c.deadline);
  o.stop = { { reproc::stop::wait, reproc::infinite }, { reproc::stop::noop, reproc::milliseconds(0) }, { reproc::stop::noop, reproc::milliseconds(0) } };
  std::string s_out("pre:"), s_err;
  std::error_code ec;
  int status = -1;
  int64_t t0 = vk_now();
  vk_script(script);
  vk_api_seq = 7001;
  CH = &vk_children[0];
  if (!c.run) {
    reproc::process p;
    vk_cfg.sched_on = 0;
    ec = p.start(reproc::arguments(hx_helper_argv()), o);
    vk_cfg.sched_on = 1;
    if (ec) vk_finish(OUT_INFRA, "reproc++ start failed: %d", ec.value());
    for (int i = 1; i < 3; i++) {
      int f = ident_parent_fd_for_stream(CH, i);
      if (f >= 0) fcntl(f, F_SETPIPE_SZ, CAP);
    }
    if (c.sm == XM_STRING) ec = reproc::drain(p, reproc::sink::string(s_out), reproc::sink::string(s_err));
    else if (c.sm == XM_STRING_SAME) { reproc::sink::string both(s_out); ec = reproc::drain(p, both, both); }
    else ec = reproc::drain(p, rec, rec);
    vk_cfg.sched_on = 0;
    reproc::stop_actions k = { { reproc::stop::kill, reproc::infinite }, { reproc::stop::noop, reproc::milliseconds(0) }, { reproc::stop::noop, reproc::milliseconds(0) } };
    p.stop(k);
  } else {
    std::pair<int, std::error_code> r;
    if (c.sm == XM_STRING) r = reproc::run(reproc::arguments(hx_helper_argv()), o, reproc::sink::string(s_out), reproc::sink::string(s_err));
    else if (c.sm == XM_STRING_SAME) { reproc::sink::string both(s_out); r = reproc::run(reproc::arguments(hx_helper_argv()), o, both, both); }
    else r = reproc::run(reproc::arguments(hx_helper_argv()), o, rec, rec);
    status = r.first;
    ec = r.second;
  }
  vk_api_seq = 0;
  int64_t t1 = vk_now();
  vk_obs("cxx %s ec=%d status=%d calls=%zu out=%u err=%u", c.run ? "run" : "drain", ec.value(), status, calls.size(), got[1], got[2]);
  int err_pipe = c.em == EM_PIPE;
  int64_t D = c.deadline ? t0 + c.deadline : INT64_MAX;

  if (c.sm == XM_REC || c.sm == XM_FAIL) {
    if (calls.size() < 1 || calls[0].stream != (int) reproc::stream::in || calls[0].size != 0) vk_violation("C16", "initial-calls", key, "the first sink call is not (stream::in, 0)");
    else if (fail_at != 0 && (calls.size() < 2 || calls[1].stream != (int) reproc::stream::in || calls[1].size != 0)) vk_violation("C16", "initial-calls", key, "the second sink call is not (stream::in, 0)");
    for (size_t i = 2; i < calls.size(); i++)
      if (calls[i].stream == (int) reproc::stream::in) { vk_violation("C16", "stream-tags", key, "sink call %zu is tagged stream::in", i); break; }
    if (bad_bytes) vk_violation("C16", "chunks-match-stream", key, "a chunk handed to a C++ sink differs from what the child wrote");
    if (!err_pipe && (got[2] || zero_calls[2])) vk_violation("C16", "stream-tags", key, "the stderr sink was called although stderr is not a pipe");
    for (int s = 1; s <= 2; s++) {
      if (zero_calls[s] > 1) vk_violation("C16", "size-zero-call-once", key, "stream %d got %d size-zero calls", s, zero_calls[s]);
      if (data_after_zero[s]) vk_violation("C16", "size-zero-call-last", key, "stream %d got data after its size-zero call", s);
    }
    if (calls_after_error) vk_violation("C16", "stop-at-sink-error", key, "%d sink call(s) after a sink had returned an error", calls_after_error);
  }
  if (error_returned) {
    if (ec != std::errc::io_error) vk_violation("C16", "sink-error-returned", key, "a sink returned io_error but drain/run returned %d (%s)", ec.value(), ec.message().c_str());
  } else if (!ec) {
    for (int s = 1; s <= 2; s++) {
      int is_pipe = s == 1 || err_pipe;
      if (!is_pipe) continue;
      if (c.sm <= XM_FAIL && (zero_calls[s] != 1 || got[s] != total_written(s)))
        vk_violation("C16", "returns-success-only-when-ended", key, "success with %u of %u bytes of stream %d and %d size-zero call(s)", got[s], total_written(s), s, zero_calls[s]);
    }
    if (c.run && (CH->state != CH_REAPED || status != CH->expect_status))
      vk_violation("C16", "run-status", key, "reproc::run returned status %d, the child (state %d) ended with %d", status, CH->state, CH->expect_status);
    if (c.sm == XM_STRING) {
      std::string want_o("pre:"), want_e;
      for (uint32_t i = 0; i < total_written(1); i++) { uint8_t b; expected_byte(1, i, &b); want_o.push_back((char) b); }
      if (err_pipe) for (uint32_t i = 0; i < total_written(2); i++) { uint8_t b; expected_byte(2, i, &b); want_e.push_back((char) b); }
      if (s_out != want_o || s_err != want_e) vk_violation("C16", "string-content", key, "sink::string holds %zu + %zu bytes, expected %zu + %zu (or the contents differ)", s_out.size(), s_err.size(), want_o.size(), want_e.size());
    }
    if (c.sm == XM_STRING_SAME && s_out.size() != 4 + total_written(1) + (err_pipe ? total_written(2) : 0))
      vk_violation("C16", "string-content", key, "the shared sink::string holds %zu bytes, expected %u", s_out.size(), 4 + total_written(1) + (err_pipe ? total_written(2) : 0));
  } else if (ec == std::errc::timed_out) {
    if (t1 < D) vk_violation("C16", "timeout-only-at-deadline", key, "timed_out at +%lld ms, the deadline is +%d ms", (long long) (t1 - t0), c.deadline);
  } else {
    vk_violation("C16", "cxx-drain-result", key, "drain/run returned error %d (%s)", ec.value(), ec.message().c_str());
  }
  if (vk_heap_live_count() || vk_fd_ledger_open_count())
    vk_violation("C05", "ledgers-after-cxx-drain", key, "%d block(s), %d descriptor(s) of the C library left after the reproc++ objects were destroyed", vk_heap_live_count(), vk_fd_ledger_open_count());
}

std::vector<xcfg> cfgs[2];

void build()
{
  static bool done;
  if (done) return;
  done = true;
  for (int tier = 0; tier < 2; tier++)
    for (int sc = 0; sc < NXS; sc++) {
      bool has_size = strstr(x_scripts[sc], "%d") != nullptr;
      for (int si = 0; si < (has_size ? 4 : 1); si++)
        for (int e = 0; e < NEM; e++)
          for (int sm = 0; sm < NXM; sm++)
            for (int k = 0; k < (sm == XM_FAIL ? (tier ? 7 : 4) : 1); k++)
              for (int dl = 0; dl < 2; dl++)
                for (int run = 0; run < 2; run++) {
                  int size = has_size ? x_sizes[si] : 0;
                  if (!tier && dl && size > 1) continue;
                  if (!tier && (size == 0 || size == 9000)) { if (has_size) continue; }
                  if (!tier && run && sm == XM_FAIL && k > 1) continue;
                  cfgs[tier].push_back({ sc, size, e, sm, k, dl ? 2 : 0, run });
                }
    }
}

long cxx_n(int tier) { build(); return (long) cfgs[tier].size(); }
void cxx_run(int tier, long cfg) { build(); body(cfgs[tier][(size_t) cfg], tier); }

} // namespace

extern "C" const struct hx_harness h_c16_cxx = { "C16", "h_c16_cxx", cxx_n, cxx_run, nullptr, nullptr, 0, { 0, 0 }, 0 };
