#define _GNU_SOURCE
/* h_redir.c — C10 (each standard stream connected where the options say) and C11 (nothing else is
 * inherited). Real exec; the helper reports the identity of every descriptor it was started with. */
#include "hx.h"
#include "ident.h"

#include <errno.h>
#include <fcntl.h>
#include <stdio.h>
#include <stdlib.h>
#include <string.h>
#include <sys/stat.h>
#include <unistd.h>

enum { T_PIPE = REPROC_REDIRECT_PIPE, T_PARENT = REPROC_REDIRECT_PARENT, T_DISCARD = REPROC_REDIRECT_DISCARD, T_STDOUT = REPROC_REDIRECT_STDOUT,
       T_HANDLE = REPROC_REDIRECT_HANDLE, T_FILE = REPROC_REDIRECT_FILE, T_PATH = REPROC_REDIRECT_PATH };
static const int types6[6] = { T_PIPE, T_PARENT, T_DISCARD, T_HANDLE, T_FILE, T_PATH };
static const int types7[7] = { T_PIPE, T_PARENT, T_DISCARD, T_HANDLE, T_FILE, T_PATH, T_STDOUT };
static const char *const stream_names[3] = { "in", "out", "err" };

enum { CL_PIPE, CL_PARENT, CL_PARENT_NULL, CL_DISCARD, CL_STDOUT, CL_HANDLE, CL_FILE, CL_PATH, CL_ALL_OK, CL_LOW_FD_USED, CL_INHERIT_OK, CL_POOL_OPEN, CL_POOL_CLOEXEC,
       CL_POOL_TOP };
static const char *const redir_clauses[] = { "pipe-observed", "parent-observed", "parent-missing-null-observed", "discard-observed", "stdout-observed", "handle-observed",
                                             "file-observed", "path-observed", "all-three-streams-right", "library-descriptor-landed-on-0-2", "only-streams-and-exit-inherited",
                                             "pool-descriptor-open", "pool-descriptor-cloexec", "pool-descriptor-at-limit-minus-1", NULL };

static char key[220];

struct rcfg {
  int t[3];        /* explicit type per stream, -1 = leave unset */
  int shorthand;   /* 0 none, 1 parent, 2 discard, 3 file, 4 path */
  int closed;      /* bit i: the parent's descriptor i is closed before start */
  int std_target;  /* 0 none; HANDLE/FILE targets are the parent's own std stream: 1 = stdout, 2 = stderr */
  int fileno_ebadf;/* bit i: fileno() of std stream i answers EBADF (the fclose case) */
  int nonblocking;
  int implicit;     /* HANDLE/FILE/PATH given by their member only, the type left unset (documented: "type inferred from the member that is set") */
  int closed_first; /* the descriptors are closed BEFORE the user's objects are opened: FILEs and handles land on 0-2 (a daemon that reopens its log) */
};

static int inherit_check(const char *prop, const struct vk_child *c, const struct ident_expect *ex)
{
  /* C11: besides 0,1,2 exactly one more descriptor: the write end of a pipe whose read end the parent holds and that is no stream */
  int extra = 0, bad = 0;
  (void) ex;
  for (int i = 0; i < c->hello.nfd; i++) {
    const struct vc_fdinfo *f = &c->hello.fds[i];
    if (f->fd <= 2) continue;
    extra++;
    int is_exit = 0;
    if (S_ISFIFO(f->mode) && (f->flags & O_ACCMODE) == O_WRONLY) {
      for (int fd = 0; fd < 2100; fd++) {
        struct stat st;
        if (vk_lib_owns_fd(fd) && fstat(fd, &st) == 0 && st.st_ino == f->ino && st.st_dev == f->dev && (fcntl(fd, F_GETFL) & O_ACCMODE) == O_RDONLY) is_exit = 1;
      }
      /* and it must not be one of the three streams */
      for (int k = 0; k < c->hello.nfd; k++)
        if (c->hello.fds[k].fd <= 2 && c->hello.fds[k].ino == f->ino && c->hello.fds[k].dev == f->dev) is_exit = 0;
    }
    if (!is_exit) {
      vk_violation(prop, "extra-descriptor-inherited", key, "the started program sees descriptor %d (mode %o, ino %llu, cloexec=%d) besides its streams and the exit handle",
                   f->fd, f->mode, (unsigned long long) f->ino, f->fdflags & FD_CLOEXEC);
      bad++;
    }
  }
  if (!bad && extra != 1) {
    vk_violation(prop, "exit-handle-inherited", key, "the started program has %d extra descriptor(s); exactly the exit handle is expected", extra);
    bad++;
  }
  return bad;
}

static void c10_body(const struct rcfg *c)
{
  memset(&vk_cfg, 0, sizeof vk_cfg);
  vk_cfg.real_exec = 1;
  vk_cfg.vlimit = 64;
  static const char *const tn[] = { "default", "PIPE", "PARENT", "DISCARD", "STDOUT", "HANDLE", "FILE", "PATH" };
  static const char *const sh[] = { "-", "parent", "discard", "file", "path" };
  snprintf(key, sizeof key, "h_c10|in=%s,out=%s,err=%s|shorthand=%s|closed=%d|stdtarget=%d|fileno_ebadf=%d|closed_first=%d|implicit=%d", tn[c->t[0] < 0 ? 0 : c->t[0]], tn[c->t[1] < 0 ? 0 : c->t[1]],
           tn[c->t[2] < 0 ? 0 : c->t[2]], sh[c->shorthand], c->closed, c->std_target, c->fileno_ebadf, c->closed_first, c->implicit);
  hx_desc("%s", key);
  snprintf(key, sizeof key, "h_c10|std-closed=%s|targets=%s%s%s", c->closed ? "some" : "none", c->std_target ? "parent-std-stream" : "user-objects",
           c->fileno_ebadf ? "|fclosed" : "", c->closed_first ? "|user-objects-on-0-2" : "");
  hx_begin();
  if (c->closed_first)
    for (int i = 0; i < 3; i++)
      if (c->closed & (1 << i)) close(i);

  /* user objects first (so that they do not land on 0-2), then close what the configuration closes */
  reproc_options o;
  memset(&o, 0, sizeof o);
  struct ident_expect ex;
  memset(&ex, 0, sizeof ex);
  int user_fd[3] = { -1, -1, -1 };
  FILE *user_file[3] = { NULL, NULL, NULL }, *sh_file = NULL;
  char pathbuf[3][32];
  struct ident_obj parent_obj[3];
  for (int i = 0; i < 3; i++) ident_obj_from_fd(&parent_obj[i], i);
  for (int i = 0; i < 3; i++) {
    int t = c->t[i];
    reproc_redirect *rd = i == 0 ? &o.redirect.in : i == 1 ? &o.redirect.out : &o.redirect.err;
    if (t < 0) continue;
    rd->type = (REPROC_REDIRECT) t;
    if (c->implicit && (t == T_HANDLE || t == T_FILE || t == T_PATH)) rd->type = REPROC_REDIRECT_DEFAULT;
    char name[32];
    if (t == T_HANDLE) {
      if (c->std_target) { rd->handle = c->std_target; ex.obj[i] = parent_obj[c->std_target]; }
      else {
        snprintf(name, sizeof name, "u-handle-%d", i);
        user_fd[i] = open(name, (i == 0 ? O_RDONLY : O_WRONLY) | O_CREAT, 0644);
        if (user_fd[i] == 0) { user_fd[i] = fcntl(0, F_DUPFD, 1); close(0); } /* handle 0 means "not set" in the options */
        rd->handle = user_fd[i];
        ident_obj_from_fd(&ex.obj[i], user_fd[i]);
      }
    } else if (t == T_FILE) {
      if (c->std_target) { rd->file = c->std_target == 1 ? stdout : stderr; ex.obj[i] = parent_obj[c->std_target]; }
      else {
        snprintf(name, sizeof name, "u-file-%d", i);
        if (i == 0) { int fd = open(name, O_WRONLY | O_CREAT, 0644); close(fd); }
        user_file[i] = fopen(name, i == 0 ? "r" : "w");
        rd->file = user_file[i];
        ident_obj_from_fd(&ex.obj[i], fileno(user_file[i]));
      }
    } else if (t == T_PATH) {
      snprintf(pathbuf[i], sizeof pathbuf[i], "u-path-%d", i);
      if (i == 0) { int fd = open(pathbuf[i], O_WRONLY | O_CREAT, 0644); close(fd); }
      rd->path = pathbuf[i];
    }
  }
  if (c->shorthand == 1) o.redirect.parent = true;
  if (c->shorthand == 2) o.redirect.discard = true;
  if (c->shorthand == 3) { sh_file = fopen("u-shfile", "w"); o.redirect.file = sh_file; }
  if (c->shorthand == 4) o.redirect.path = "u-shpath";
  o.nonblocking = c->nonblocking;
  /* effective types */
  for (int i = 0; i < 3; i++) {
    int t = c->t[i];
    if (t < 0) {
      if ((c->shorthand == 3 || c->shorthand == 4) && i > 0) t = c->shorthand == 3 ? T_FILE : T_PATH;
      else if (c->shorthand == 1) t = T_PARENT;
      else if (c->shorthand == 2) t = T_DISCARD;
      else t = i == 2 ? T_PARENT : T_PIPE;
    }
    ex.type[i] = t;
    if (t == T_FILE && c->t[i] < 0) ident_obj_from_fd(&ex.obj[i], fileno(sh_file));
  }
  for (int i = 0; i < 3; i++)
    if ((c->closed & (1 << i)) && !c->closed_first) close(i);
  /* the fclose() case: fileno() of that stream answers EBADF from now on, and its descriptor is gone too */
  for (int i = 0; i < 3; i++)
    if (c->fileno_ebadf & (1 << i)) fclose(i == 0 ? stdin : i == 1 ? stdout : stderr);
  for (int i = 0; i < 3; i++) {
    if (ex.type[i] != T_PARENT) continue;
    if (c->closed_first) { ident_obj_from_fd(&ex.obj[i], i); continue; } /* whatever sits on that number now is the parent's stream */
    if ((c->closed & (1 << i)) || (c->fileno_ebadf & (1 << i))) ex.obj[i].valid = 0; /* the parent has no such stream: the null device */
    else ex.obj[i] = parent_obj[i];
  }
  if (c->fileno_ebadf) ex.parent_may_be_null = 0;

  vk_script("");
  reproc_t *p = hx_new();
  /* fileno() failures: the k-th fileno call belongs to the k-th PARENT stream in order in/out/err */
  vk_faults_armed = 0;
  int lowfd_before = 0;
  for (int fd = 0; fd < 3; fd++) lowfd_before |= (fcntl(fd, F_GETFD) >= 0) << fd;
  int r = hx_start(p, hx_helper_argv(), o);
  if (r < 0) {
    vk_violation("C10", "valid-combination-starts", key, "start returned %s for a valid combination of redirects", hx_errname(r));
    hx_destroy(p);
    return;
  }
  struct vk_child *ch = &vk_children[vk_nchildren - 1];
  for (int i = 0; i < 3; i++)
    if (ex.type[i] == T_PATH) ident_obj_from_path(&ex.obj[i], c->t[i] < 0 ? "u-shpath" : pathbuf[i]);
  if (!ch->have_hello) {
    vk_violation("C10", "valid-combination-starts", key, "start reported success but the program never ran");
  } else {
    int bad = ident_check("C10", key, ch, &ex);
    bad += ident_api_check("C10", key, p, &ex);
    if (!bad) {
      vk_hit(CL_ALL_OK);
      for (int i = 0; i < 3; i++) {
        switch (ex.type[i]) {
          case T_PIPE: vk_hit(CL_PIPE); break;
          case T_PARENT: vk_hit(ex.obj[i].valid ? CL_PARENT : CL_PARENT_NULL); break;
          case T_DISCARD: vk_hit(CL_DISCARD); break;
          case T_STDOUT: vk_hit(CL_STDOUT); break;
          case T_HANDLE: vk_hit(CL_HANDLE); break;
          case T_FILE: vk_hit(CL_FILE); break;
          case T_PATH: vk_hit(CL_PATH); break;
        }
      }
    }
    /* did a descriptor created by the library land on 0-2? (that is what closing them is for) */
    /* (since the library moves such descriptors away at once, what shows is the system call that handed one out) */
    for (int i = 0; i < S->nevents; i++) {
      const struct vk_event *e = &S->ev[i];
      if (e->side != 0 || e->injected) continue;
      if ((e->call == C_PIPE && e->ret == 0 && (e->a0 <= 2 || e->a1 <= 2)) || (e->call == C_OPEN && e->ret >= 0 && e->ret <= 2)) { vk_hit(CL_LOW_FD_USED); break; }
    }
    (void) lowfd_before;
    if (inherit_check("C11", ch, &ex) == 0) vk_hit(CL_INHERIT_OK);
  }
  reproc_stop_actions k = { { REPROC_STOP_KILL, REPROC_INFINITE }, { REPROC_STOP_NOOP, 0 }, { REPROC_STOP_NOOP, 0 } };
  reproc_stop(p, k);
  hx_destroy(p);
  /* the objects the caller lent (handles, FILEs, its own standard streams) are still the caller's: a close of one of them is recorded by the
   * descriptor ledger and not carried out, so its consequences (the next stream that refers to the same number gets nothing or something else)
   * would not show in the identities above */
  if (vk_foreign_closes)
    vk_violation("C10", "callers-object-closed", key, "the library tried to close %d descriptor(s) that belong to the caller (a lent handle/FILE or a standard stream of the parent)", vk_foreign_closes);
  for (int i = 0; i < 3; i++) {
    if (user_fd[i] >= 0) {
      struct ident_obj now;
      ident_obj_from_fd(&now, user_fd[i]);
      if (!now.valid) vk_violation("C05", "user-handle-intact", key, "the user's handle %d was closed", user_fd[i]);
      close(user_fd[i]);
    }
    if (user_file[i]) fclose(user_file[i]);
  }
  if (sh_file) fclose(sh_file);
}

static struct rcfg *c10_cfgs;
static long c10_count[2];

static void c10_build(void)
{
  static int done;
  if (done) return;
  done = 1;
  static struct rcfg store[12000];
  long n = 0;
  /* first pass: 252 explicit combinations + all-default + 4 shorthands, x 8 closed sets */
  for (int closed = 0; closed < 8; closed++) {
    for (int a = 0; a < 6; a++)
      for (int b = 0; b < 6; b++)
        for (int e = 0; e < 7; e++) {
          struct rcfg c = { { types6[a], types6[b], types7[e] }, 0, closed, 0, 0, 0 };
          store[n++] = c;
        }
    for (int s = 0; s <= 4; s++) {
      struct rcfg c = { { -1, -1, -1 }, s, closed, 0, 0, 0 };
      store[n++] = c;
    }
  }
  /* second pass: HANDLE / FILE targets that are the parent's own stdout / stderr (descriptor 0 cannot be a handle) */
  for (int tgt = 1; tgt <= 2; tgt++)
    for (int a = 0; a < 6; a++)
      for (int b = 0; b < 6; b++)
        for (int e = 0; e < 7; e++) {
          int ta = types6[a], tb = types6[b], te = types7[e];
          if (!((tb == T_HANDLE || tb == T_FILE) || (te == T_HANDLE || te == T_FILE))) continue;
          if (ta == T_HANDLE || ta == T_FILE) continue; /* stdin onto an output stream is not a sensible request */
          struct rcfg c = { { ta, tb, te }, 0, 0, tgt, 0, 0 };
          store[n++] = c;
        }
  /* third pass: standard streams closed with fclose(), for the shorthand and for each explicit PARENT */
  for (int m = 1; m < 8; m++) {
    struct rcfg c1 = { { -1, -1, -1 }, 1, 0, 0, m, 0 };
    store[n++] = c1;
    struct rcfg c2 = { { T_PARENT, T_PIPE, T_PARENT }, 0, 0, 0, m, 0 };
    store[n++] = c2;
    struct rcfg c3 = { { T_PIPE, T_PARENT, T_STDOUT }, 0, 0, 0, m, 0 };
    store[n++] = c3;
    struct rcfg c4 = { { -1, -1, -1 }, 0, 0, 0, m, 0 };
    store[n++] = c4;
  }
  /* fourth pass: descriptors closed first, so that the user's FILEs and handles sit on 0-2 themselves */
  for (int ci = 0; ci < 4; ci++)
    for (int a = 0; a < 6; a++)
      for (int b = 0; b < 6; b++)
        for (int e = 0; e < 7; e++) {
          static const int cl[4] = { 1, 3, 5, 7 };
          int ta = types6[a], tb = types6[b], te = types7[e];
          if (!(ta == T_FILE || tb == T_FILE || te == T_FILE || ta == T_HANDLE || tb == T_HANDLE || te == T_HANDLE)) continue;
          struct rcfg c = { { ta, tb, te }, 0, cl[ci], 0, 0, 0, 0, 1 };
          store[n++] = c;
        }
  for (int ci = 0; ci < 4; ci++) {
    static const int cl[4] = { 1, 3, 5, 7 };
    struct rcfg c = { { -1, -1, -1 }, 3, cl[ci], 0, 0, 0, 0, 1 };
    store[n++] = c;
  }
  /* fifth pass: the same targets named by their member alone */
  for (int a = 0; a < 6; a++)
    for (int b = 0; b < 6; b++)
      for (int e = 0; e < 7; e++) {
        int ta = types6[a], tb = types6[b], te = types7[e];
        if (!(ta == T_FILE || tb == T_FILE || te == T_FILE || ta == T_HANDLE || tb == T_HANDLE || te == T_HANDLE || ta == T_PATH || tb == T_PATH || te == T_PATH)) continue;
        struct rcfg c = { { ta, tb, te }, 0, 0, 0, 0, 0, 1, 0 };
        store[n++] = c;
      }
  c10_count[0] = n;
  /* thorough: nonblocking on as well, first pass with nothing closed and everything closed */
  for (int closed = 0; closed < 8; closed += 7)
    for (int a = 0; a < 6; a++)
      for (int b = 0; b < 6; b++)
        for (int e = 0; e < 7; e++) {
          struct rcfg c = { { types6[a], types6[b], types7[e] }, 0, closed, 0, 0, 1 };
          store[n++] = c;
        }
  c10_count[1] = n;
  c10_cfgs = store;
}

static long c10_n(int tier) { c10_build(); return c10_count[tier]; }
static void c10_run(int tier, long cfg) { (void) tier; c10_build(); c10_body(&c10_cfgs[cfg]); }

/* ================================================================= C11 */

static const int limits[] = { 32, 64, 256, 1024, 2048 };
#define NTWO 30
#define NRLF 2
static void c11_two_starts(long k);
static void c11_rlimit_fault(long k);
enum { RC_DEFAULT, RC_PIPES, RC_DISCARD, RC_HANDLES, RC_FILES, NRC };

static void c11_run(int tier, long cfg)
{
  int nl = tier ? 5 : 3;
  if (cfg >= (long) nl * NRC * 243 + NTWO) { c11_rlimit_fault(cfg - (long) nl * NRC * 243 - NTWO); return; }
  if (cfg >= (long) nl * NRC * 243) { c11_two_starts(cfg - (long) nl * NRC * 243); return; }
  int L = limits[cfg % nl];
  cfg /= nl;
  int rc = (int) (cfg % NRC);
  cfg /= NRC;
  int pool = (int) cfg; /* base-3 digits: absent / open / open+cloexec for descriptors 3, 4, 11, L-2, L-1 */
  memset(&vk_cfg, 0, sizeof vk_cfg);
  vk_cfg.real_exec = 1;
  vk_cfg.vlimit = L;
  int fds[5] = { 3, 4, 11, L - 2, L - 1 };
  int st[5];
  char ps[16];
  for (int i = 0; i < 5; i++) { st[i] = pool % 3; pool /= 3; ps[i] = "-oc"[st[i]]; }
  ps[5] = 0;
  snprintf(key, sizeof key, "h_c11|limit=%d|redirect=%d|pool=%s", L, rc, ps);
  hx_desc("%s", key);
  snprintf(key, sizeof key, "h_c11|redirect=%d", rc);
  hx_begin();
  int src = open("pool-file", O_RDWR | O_CREAT, 0644);
  for (int i = 0; i < 5; i++) {
    if (!st[i]) continue;
    if (src != fds[i]) dup2(src, fds[i]);
    fcntl(fds[i], F_SETFD, st[i] == 2 ? FD_CLOEXEC : 0);
    vk_hit(st[i] == 2 ? CL_POOL_CLOEXEC : CL_POOL_OPEN);
    if (i == 4) vk_hit(CL_POOL_TOP);
  }
  int keep_src = 0;
  for (int i = 0; i < 5; i++) keep_src |= st[i] && fds[i] == src;
  if (!keep_src) close(src);
  /* and one descriptor of the kind that only names a location (O_PATH, a directory handle): it cannot be read, written or polled, but it is
   * inherited like any other */
  int opath = open(".", O_PATH | O_DIRECTORY);
  if (opath >= 0 && opath != 12) { dup2(opath, 12); close(opath); opath = 12; }
  if (opath >= 0) fcntl(opath, F_SETFD, 0);
  reproc_options o;
  memset(&o, 0, sizeof o);
  if (rc == RC_PIPES) o.redirect.err.type = REPROC_REDIRECT_PIPE;
  if (rc == RC_DISCARD) o.redirect.discard = true;
  /* user-supplied targets without close-on-exec: they must reach the child as 0/1/2 only */
  int uh[3] = { -1, -1, -1 };
  FILE *uf[2] = { NULL, NULL };
  if (rc == RC_HANDLES) {
    uh[0] = open("c11-in", O_RDONLY | O_CREAT, 0644);
    uh[1] = open("c11-out", O_WRONLY | O_CREAT, 0644);
    uh[2] = open("c11-err", O_WRONLY | O_CREAT, 0644);
    o.redirect.in.handle = uh[0];
    o.redirect.out.handle = uh[1];
    o.redirect.err.handle = uh[2];
  }
  if (rc == RC_FILES) {
    uf[0] = fopen("c11-fout", "w");
    uf[1] = fopen("c11-ferr", "w");
    o.redirect.out.file = uf[0];
    o.redirect.err.file = uf[1];
  }
  vk_script("");
  reproc_t *p = hx_new();
  int r = hx_start(p, hx_helper_argv(), o);
  if (r < 0) vk_finish(OUT_INFRA, "start failed in the inheritance harness: %d", r);
  struct vk_child *ch = &vk_children[0];
  if (!ch->have_hello) vk_violation("C04", "success-without-program", key, "no hello");
  else if (inherit_check("C11", ch, NULL) == 0) vk_hit(CL_INHERIT_OK);
  reproc_stop_actions k = { { REPROC_STOP_KILL, REPROC_INFINITE }, { REPROC_STOP_NOOP, 0 }, { REPROC_STOP_NOOP, 0 } };
  reproc_stop(p, k);
  hx_destroy(p);
  for (int i = 0; i < 3; i++) if (uh[i] >= 0) close(uh[i]);
  for (int i = 0; i < 2; i++) if (uf[i]) fclose(uf[i]);
  if (opath >= 0) {
    if (fcntl(opath, F_GETFD) < 0) vk_violation("C05", "no-foreign-close", key, "the caller's O_PATH descriptor was closed by the library");
    close(opath);
  }
  /* the caller's descriptors are still there */
  for (int i = 0; i < 5; i++)
    if (st[i] && fcntl(fds[i], F_GETFD) < 0) vk_violation("C05", "no-foreign-close", key, "the caller's descriptor %d was closed by the library", fds[i]);
}

/* two starts in one process with the descriptor limit raised in between and descriptors open in the new range */
static void c11_two_starts(long k)
{
  static const int l1s[3] = { 32, 64, 256 }, l2s[3] = { 64, 300, 1024 };
  /* k >= 9: the second child is started in fork mode (no exec follows: close-on-exec protects nothing there) */
  int fork2 = k >= 9;
  if (fork2) k -= 9;
  int L1 = l1s[k % 3], L2 = l2s[k % 3], rc = (int) (k / 3) % (fork2 ? 7 : 3);
  memset(&vk_cfg, 0, sizeof vk_cfg);
  vk_cfg.real_exec = 1;
  vk_cfg.vlimit = L1;
  snprintf(key, sizeof key, "h_c11|two-starts%s|limit=%d->%d|redirect=%d", fork2 ? ",second-forked" : "", L1, L2, rc);
  hx_desc("%s", key);
  snprintf(key, sizeof key, "h_c11|two-starts%s", fork2 ? ",second-forked" : "");
  hx_begin();
  reproc_stop_actions kk = { { REPROC_STOP_KILL, REPROC_INFINITE }, { REPROC_STOP_NOOP, 0 }, { REPROC_STOP_NOOP, 0 } };
  reproc_options o;
  memset(&o, 0, sizeof o);
  if (rc == RC_PIPES) o.redirect.err.type = REPROC_REDIRECT_PIPE;
  if (rc == RC_DISCARD) o.redirect.discard = true;
  /* (fork mode only) stderr taken from another standard descriptor: the forked side makes a private copy of it first, which must be gone again */
  if (rc == 3) { o.redirect.out.type = REPROC_REDIRECT_PARENT; o.redirect.err.type = REPROC_REDIRECT_STDOUT; }
  if (rc == 4) { o.redirect.err.type = REPROC_REDIRECT_HANDLE; o.redirect.err.handle = 1; }
  /* (fork mode only) targets the library opens itself: what it opened for the child must not stay open on its own side of the fork */
  if (rc == 5) o.redirect.path = "c11-fork-path";
  if (rc == 6) { o.redirect.in.path = "c11-fork-in"; int t = open("c11-fork-in", O_WRONLY | O_CREAT, 0644); close(t); o.redirect.out.path = "c11-fork-out"; }
  vk_script("");
  vk_script("");
  reproc_t *p1 = hx_new();
  int r = hx_start(p1, hx_helper_argv(), o);
  if (r < 0) vk_finish(OUT_INFRA, "first start failed: %d", r);
  if (vk_children[0].have_hello && inherit_check("C11", &vk_children[0], NULL) == 0) vk_hit(CL_INHERIT_OK);
  /* the application raises its limit and opens descriptors up there */
  vk_cfg.vlimit = L2;
  int src = open("pool-file2", O_RDWR | O_CREAT, 0644);
  int fds[3] = { L1, (L1 + L2) / 2, L2 - 1 };
  for (int i = 0; i < 3; i++) { dup2(src, fds[i]); fcntl(fds[i], F_SETFD, 0); }
  close(src);
  reproc_t *p2 = hx_new();
  if (fork2) {
    vk_cfg.fork_mode = 1;
    vk_cfg.fork_child_first = 1;
    o.fork = true;
    r = hx_start(p2, NULL, o);
    if (vk_side != 0) hx_forked_side(p2, r);
    if (r <= 0) vk_finish(OUT_INFRA, "second (fork-mode) start failed: %d", r);
  } else r = hx_start(p2, hx_helper_argv(), o);
  if (r < 0) vk_finish(OUT_INFRA, "second start failed: %d", r);
  struct vk_child *c2 = &vk_children[1];
  if (!c2->have_hello) vk_violation("C04", "success-without-program", key, "no hello");
  else if (inherit_check("C11", c2, NULL) == 0) vk_hit(CL_POOL_TOP);
  reproc_stop(p1, kk);
  reproc_stop(p2, kk);
  hx_destroy(p1);
  hx_destroy(p2);
  for (int i = 0; i < 3; i++) close(fds[i]);
}


/* the descriptor limit cannot be read in the forked child (getrlimit fails, or answers "unlimited"): either the start fails cleanly or the child
 * still sees nothing but its streams and the exit handle - also with the caller's descriptors above 1024 */
static void c11_rlimit_fault(long k)
{
  memset(&vk_cfg, 0, sizeof vk_cfg);
  vk_cfg.real_exec = 1;
  vk_cfg.vlimit = 2048;
  vk_cfg.faults_on = 1;
  vk_cfg.fault_bound = 1;
  vk_cfg.fault_calls = (1ull << C_GETRLIMIT) | (1ull << C_CLOSE_RANGE);
  snprintf(key, sizeof key, "h_c11|limit-unreadable|redirect=%ld", k);
  hx_desc("%s", key);
  snprintf(key, sizeof key, "h_c11|limit-unreadable");
  hx_begin();
  int src = open("pool-file3", O_RDWR | O_CREAT, 0644);
  static const int fds[4] = { 11, 1030, 1100, 2047 };
  for (int i = 0; i < 4; i++) { dup2(src, fds[i]); fcntl(fds[i], F_SETFD, i == 1 ? FD_CLOEXEC : 0); }
  close(src);
  reproc_options o;
  memset(&o, 0, sizeof o);
  if (k == 1) o.redirect.err.type = REPROC_REDIRECT_PIPE;
  vk_script("");
  reproc_t *p = hx_new();
  vk_faults_armed = 1;
  int r = hx_start(p, hx_helper_argv(), o);
  vk_faults_armed = 0;
  if (r < 0) {
    int explained = 0;
    for (int i = 0; i < S->nevents; i++)
      if (S->ev[i].api == hx_last_api && S->ev[i].injected && (r == -S->ev[i].injected || (S->ev[i].injected < 0 && r == -EMFILE))) explained = 1;
    if (!explained) vk_violation("C04", "failure-cause", key, "start returned %s with no failing call behind it", hx_errname(r));
    for (int i = 0; i < vk_nchildren; i++)
      if (vk_children[i].state != CH_REAPED && vk_children[i].state != CH_DEAD_PREHELLO) vk_violation("C04", "failed-start-leaves-child", key, "a child was left behind after %s", hx_errname(r));
    hx_destroy(p);
  } else {
    struct vk_child *ch = &vk_children[vk_nchildren - 1];
    if (!ch->have_hello) vk_violation("C04", "success-without-program", key, "no hello");
    else if (inherit_check("C11", ch, NULL) == 0) vk_hit(CL_POOL_TOP);
    reproc_stop_actions kk = { { REPROC_STOP_KILL, REPROC_INFINITE }, { REPROC_STOP_NOOP, 0 }, { REPROC_STOP_NOOP, 0 } };
    reproc_stop(p, kk);
    hx_destroy(p);
  }
  for (int i = 0; i < 4; i++) close(fds[i]);
}
static long c11_n(int tier) { return (long) (tier ? 5 : 3) * NRC * 243 + NTWO + NRLF; }

const struct hx_harness h_c10 = { "C10", "h_c10", c10_n, c10_run, redir_clauses, NULL };
const struct hx_harness h_c11 = { "C11", "h_c11", c11_n, c11_run, redir_clauses, NULL };
