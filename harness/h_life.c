/* h_life.c — C14: any call sequence follows the documented life cycle; misuse yields errors, never
 * undefined behaviour. Breadth-first search over API histories with state deduplication; sanitizer build.
 * DESIGN.md 3/C14, Appendix E (ref_life). */
#include "hx.h"
#include "ident.h"

#include <errno.h>
#include <fcntl.h>
#include <signal.h>
#include <stdio.h>
#include <string.h>
#include <sys/ioctl.h>
#include <sys/stat.h>
#include <sys/wait.h>
#include <unistd.h>

enum {
  OP_START_A, OP_START_B, OP_START_INVALID, OP_START_FAILING, OP_PID, OP_WRITE, OP_WRITE_NULL0, OP_READ_OUT, OP_READ_ERR, OP_READ_OUT0, OP_READ_IN, OP_READ_NULLBUF,
  OP_CLOSE_IN, OP_CLOSE_OUT, OP_CLOSE_ERR, OP_CLOSE_BAD, OP_POLL, OP_POLL_NULL, OP_WAIT0, OP_WAIT_DEADLINE, OP_TERMINATE, OP_KILL, OP_STOP_W0, OP_STOP_KINF,
  OP_DESTROY_NEW, OP_CHILD_STEP, OP_TIME_PASSES, OP_NULL_HANDLE, OP_WAIT0_EINTR, OP_START_EMPTY_INPUT, OP_STOP_BAD, NOPS
};
static const char *const op_names[NOPS] = { "start(echo)", "start(exit0)", "start(invalid)", "start(failing,deadline)", "pid", "write(ab)", "write(NULL,0)", "read(out,4)",
  "read(err,4)", "read(out,0)", "read(in)", "read(NULL buffer)", "close(in)", "close(out)", "close(err)", "close(9)", "poll(15,0)", "poll(NULL)", "wait(0)",
  "wait(DEADLINE)", "terminate", "kill", "stop{wait 0}", "stop{kill INF}", "destroy+new", "child-step", "time-passes", "NULL-handle-calls", "wait(0)-with-interrupted-reap", "start(echo,input of size 0)", "stop{wait 0, action 7}" };

enum { L_NS, L_RUN, L_EX };
enum { E_OPEN, E_CLOSED, E_NOPIPE };

static reproc_t *P;
static struct vk_child *CH;
static int life, status_val;
static int endst[3];
static int endcause[3], excause; /* which operation brought a stream end / the handle into its state: different code paths of the library, kept apart in the
                                    * state digest although the reference model treats them alike (merged states must have the same futures) */
static int cur_op;
static int pfd[3];
static uint64_t pino[3];
static int pid_seen;
static char key[160];
static int results_seen_mask[NOPS];

static const char *lname(void) { return life == L_NS ? "not-started" : life == L_RUN ? "running" : "exited"; }

static void expect(int op, int r, int ok, const char *what)
{
  if (!ok) {
    char k[120];
    snprintf(k, sizeof k, "h_c14|op=%s|state=%s", op_names[op], lname());
    vk_violation("C14", "result-matches-life-cycle", k, "%s in state %s returned %s; %s", op_names[op], lname(), hx_errname(r), what);
  }
}

static int end_held(int i)
{
  struct stat st;
  return pfd[i] >= 0 && vk_lib_owns_fd(pfd[i]) && fstat(pfd[i], &st) == 0 && st.st_ino == pino[i];
}

static int child_exited(void) { return CH && (CH->state == CH_ZOMBIE || CH->state == CH_REAPED); }

static void after_start_ok(void)
{
  CH = &vk_children[vk_nchildren - 1];
  life = L_RUN;
  for (int i = 0; i < 3; i++) {
    pfd[i] = ident_parent_fd_for_stream(CH, i);
    struct stat st;
    pino[i] = pfd[i] >= 0 && fstat(pfd[i], &st) == 0 ? st.st_ino : 0;
    endst[i] = pfd[i] >= 0 ? E_OPEN : E_NOPIPE;
  }
  pid_seen = CH->pid;
}

static void note_reaped(int r)
{
  life = L_EX;
  status_val = r;
  excause = cur_op + 1;
}

static void do_start(int op)
{
  reproc_options o;
  memset(&o, 0, sizeof o);
  o.nonblocking = true;
  o.redirect.err.type = REPROC_REDIRECT_PIPE;
  reproc_stop_actions sa = { { REPROC_STOP_TERMINATE, REPROC_INFINITE }, { REPROC_STOP_NOOP, 0 }, { REPROC_STOP_NOOP, 0 } };
  o.stop = sa;
  const char *const *argv = hx_helper_argv();
  static const char *bad[] = { "/nonexistent/c14-program", NULL };
  if (op == OP_START_INVALID) { o.redirect.parent = o.redirect.discard = true; o.redirect.err.type = REPROC_REDIRECT_DEFAULT; }
  if (op == OP_START_FAILING) { argv = bad; o.deadline = 1; }
  static const uint8_t nothing[1] = { 0 };
  if (op == OP_START_EMPTY_INPUT) { o.input.data = nothing; o.input.size = 0; vk_script("E X3"); }
  if (op == OP_START_A) vk_script("E X3");
  if (op == OP_START_B) vk_script("X0");
  if (op == OP_START_FAILING) vk_script("");
  int r = hx_start(P, argv, o);
  if (life != L_NS) { expect(op, r, r == REPROC_EINVAL, "a started handle must reject start"); return; }
  if (op == OP_START_INVALID) {
    expect(op, r, r == REPROC_EINVAL, "invalid options must be rejected");
    /* a second invalid form: start-up input while a shorthand sends stdin elsewhere (nothing names stdin's type explicitly) */
    static const uint8_t some[2] = { 'a', 'b' };
    reproc_options o2;
    memset(&o2, 0, sizeof o2);
    o2.redirect.parent = true;
    o2.input.data = some;
    o2.input.size = 2;
    int r2 = hx_start(P, argv, o2);
    expect(op, r2, r2 == REPROC_EINVAL, "start-up input with a stdin that is not a pipe must be rejected as invalid");
    return;
  }
  if (op == OP_START_FAILING) { expect(op, r, r == -ENOENT, "the program does not exist"); return; }
  expect(op, r, r > 0, "a valid start on a fresh handle must succeed");
  if (r > 0) after_start_ok();
  if (r > 0 && op == OP_START_EMPTY_INPUT) {
    /* reproc.h: if input is set, the stdin pipe is closed after it has been written - also when there was nothing to write */
    expect(op, r, pfd[0] < 0, "start-up input was given, yet the parent still holds a stdin pipe end");
    endst[0] = E_CLOSED;
    endcause[0] = op + 1;
    pfd[0] = -1;
  }
}

static void do_op(int op)
{
  uint8_t buf[8];
  int r;
  switch (op) {
    case OP_START_A: case OP_START_B: case OP_START_INVALID: case OP_START_FAILING: case OP_START_EMPTY_INPUT:
      do_start(op);
      return;
    case OP_PID:
      r = hx_pid(P);
      if (life == L_NS) expect(op, r, r == REPROC_EINVAL, "not started");
      else expect(op, r, r == pid_seen && r > 0, "must be the positive pid of the child, stable");
      break;
    case OP_WRITE:
      r = hx_write(P, (const uint8_t *) "ab", 2);
      if (life == L_NS || endst[0] != E_OPEN) expect(op, r, r == REPROC_EPIPE, "stdin end is not open");
      else if (child_exited() || CH->closed_fd[0]) { expect(op, r, r == REPROC_EPIPE, "the reader is gone"); if (r == REPROC_EPIPE) { endst[0] = E_CLOSED; endcause[0] = op + 1; } }
      else expect(op, r, r == 2 || r == REPROC_EWOULDBLOCK, "room in the pipe");
      break;
    case OP_WRITE_NULL0:
      r = hx_write(P, NULL, 0);
      expect(op, r, r == 0, "a NULL buffer of size 0 is allowed in every state");
      break;
    case OP_READ_OUT: case OP_READ_ERR: case OP_READ_OUT0: {
      int s = op == OP_READ_ERR ? 2 : 1, size = op == OP_READ_OUT0 ? 0 : 4;
      int avail = 0, held = life != L_NS && endst[s] == E_OPEN && end_held(s);
      if (held) ioctl(pfd[s], FIONREAD, &avail);
      int writer_gone = child_exited() || (CH && CH->closed_fd[s]);
      r = hx_read(P, s == 1 ? REPROC_STREAM_OUT : REPROC_STREAM_ERR, buf, (size_t) size);
      if (life == L_NS || endst[s] != E_OPEN) expect(op, r, r == REPROC_EPIPE, "the stream's parent end is not open");
      else if (size == 0) expect(op, r, r == 0 || (r < 0 && end_held(s)), "a zero-size read returns 0 or an error that changes nothing");
      else if (avail > 0) expect(op, r, r == (avail < 4 ? avail : 4), "data is pending");
      else if (writer_gone) { expect(op, r, r == REPROC_EPIPE, "no data and the writer is gone"); if (r == REPROC_EPIPE) { endst[s] = E_CLOSED; endcause[s] = op + 1; } }
      else expect(op, r, r == REPROC_EWOULDBLOCK, "no data, writer alive, nonblocking");
      if (size == 0 && r == REPROC_EPIPE && !writer_gone) { endst[s] = E_CLOSED; endcause[s] = op + 1; }
      break;
    }
    case OP_READ_IN:
      r = hx_read(P, REPROC_STREAM_IN, buf, 4);
      expect(op, r, r == REPROC_EINVAL, "stdin cannot be read");
      break;
    case OP_READ_NULLBUF:
      hx_last_api = vk_api_begin("read(out, NULL, 4)");
      r = reproc_read(P, REPROC_STREAM_OUT, NULL, 4);
      vk_api_end(r);
      vk_obs("read(NULL)=%s", hx_errname(r));
      expect(op, r, r == REPROC_EINVAL, "a NULL buffer is rejected");
      break;
    case OP_CLOSE_IN: case OP_CLOSE_OUT: case OP_CLOSE_ERR: {
      int s = op - OP_CLOSE_IN;
      r = hx_close(P, (REPROC_STREAM) s);
      expect(op, r, r == 0, "close is idempotent and always succeeds on a valid stream");
      if (life != L_NS && endst[s] == E_OPEN) { endst[s] = E_CLOSED; endcause[s] = op + 1; }
      break;
    }
    case OP_CLOSE_BAD:
      r = hx_close(P, (REPROC_STREAM) 9);
      expect(op, r, r == REPROC_EINVAL, "no such stream");
      break;
    case OP_POLL: {
      /* a source without process comes first, still carrying the events of some earlier poll (the field is output-only): it is ignored */
      reproc_event_source srcs[2] = { { NULL, 15, 0x7f }, { P, 15, 0x7f } };
      r = hx_poll(srcs, 2, 0);
      reproc_event_source src = srcs[1];
      if (r >= 0 && srcs[0].events) expect(op, r, 0, "a source without process reports events");
      int pollable = 0;
      if (life != L_NS) {
        for (int i = 0; i < 3; i++) pollable |= endst[i] == E_OPEN && end_held(i);
        pollable |= life == L_RUN; /* the exit handle, while unreaped */
      }
      if (!pollable) expect(op, r, r == REPROC_EPIPE, "nothing can be polled");
      else {
        expect(op, r, r == 0 || r == 1, "something can be polled");
        if (r >= 0 && (src.events & ~15)) expect(op, r, 0, "events outside the requested interests (a deadline event without a deadline)");
        if (r >= 0 && (r == 1) != (src.events != 0)) expect(op, r, 0, "return value and events disagree");
      }
      break;
    }
    case OP_POLL_NULL:
      r = hx_poll(NULL, 1, 0);
      expect(op, r, r == REPROC_EINVAL, "NULL sources");
      {
        reproc_event_source src = { P, 15, 0 };
        int r2 = reproc_poll(&src, 0, 0);
        expect(op, r2, r2 == REPROC_EINVAL, "zero sources");
      }
      break;
    case OP_STOP_BAD: {
      /* a value that is no stop action: once it is reached the answer is the invalid-argument error (a child found exited by the wait before it
       * ends the sequence with its status first) */
      reproc_stop_actions sa = { { REPROC_STOP_WAIT, 0 }, { (REPROC_STOP) 7, 0 }, { REPROC_STOP_NOOP, 0 } };
      int zombie = CH && CH->state == CH_ZOMBIE;
      r = hx_stop(P, sa);
      if (life == L_NS) expect(op, r, r == REPROC_EINVAL, "not started");
      else if (life == L_EX) expect(op, r, r == status_val, "the cached status");
      else if (zombie) { expect(op, r, r == CH->expect_status, "the child has exited"); if (r >= 0) note_reaped(r); }
      else expect(op, r, r == REPROC_EINVAL, "an action that does not exist");
      break;
    }
    case OP_WAIT0: case OP_STOP_W0: {
      reproc_stop_actions sa = { { REPROC_STOP_WAIT, 0 }, { REPROC_STOP_NOOP, 0 }, { REPROC_STOP_NOOP, 0 } };
      int zombie = CH && CH->state == CH_ZOMBIE;
      r = op == OP_WAIT0 ? hx_wait(P, 0) : hx_stop(P, sa);
      if (life == L_NS) expect(op, r, r == REPROC_EINVAL, "not started");
      else if (life == L_EX) expect(op, r, r == status_val, "the cached status");
      else if (zombie) { expect(op, r, r == CH->expect_status, "the child has exited"); if (r >= 0) note_reaped(r); }
      else expect(op, r, r == REPROC_ETIMEDOUT, "the child is running");
      break;
    }
    case OP_WAIT0_EINTR: {
      /* the reap itself is interrupted by a signal: the error surfaces, nothing is lost, a later wait still works */
      int zombie = CH && CH->state == CH_ZOMBIE;
      vk_force_fault(C_WAITPID, EINTR);
      r = hx_wait(P, 0);
      vk_force_fault(0, 0);
      if (life == L_NS) expect(op, r, r == REPROC_EINVAL, "not started");
      else if (life == L_EX) expect(op, r, r == status_val, "the cached status");
      else if (zombie) expect(op, r, r == -EINTR, "the interrupted reap is reported, the handle stays running");
      else expect(op, r, r == REPROC_ETIMEDOUT, "the child is running");
      break;
    }
    case OP_WAIT_DEADLINE:
      r = hx_wait(P, REPROC_DEADLINE);
      if (life == L_NS) expect(op, r, r == REPROC_EINVAL, "not started");
      else if (life == L_EX) expect(op, r, r == status_val, "the cached status");
      else { expect(op, r, r >= 0 && r == CH->expect_status, "without a deadline this waits for the exit"); if (r >= 0) note_reaped(r); }
      break;
    case OP_TERMINATE: case OP_KILL: {
      int nsig = CH ? CH->nsigs : 0;
      r = op == OP_TERMINATE ? hx_terminate(P) : hx_kill(P);
      if (life == L_NS) expect(op, r, r == REPROC_EINVAL, "not started");
      else {
        expect(op, r, r == 0, "signalling succeeds");
        if (life == L_EX && CH->nsigs != nsig) expect(op, r, 0, "a signal was sent after the child had been reaped");
      }
      break;
    }
    case OP_STOP_KINF: {
      reproc_stop_actions sa = { { REPROC_STOP_KILL, REPROC_INFINITE }, { REPROC_STOP_NOOP, 0 }, { REPROC_STOP_NOOP, 0 } };
      r = hx_stop(P, sa);
      if (life == L_NS) expect(op, r, r == REPROC_EINVAL, "not started");
      else if (life == L_EX) expect(op, r, r == status_val, "the cached status");
      else { expect(op, r, r >= 0 && r == CH->expect_status, "kill then wait forever yields the status"); if (r >= 0) note_reaped(r); }
      break;
    }
    case OP_DESTROY_NEW: {
      reproc_t *q = hx_destroy(P);
      expect(op, q != NULL, q == NULL, "destroy returns NULL");
      if (life == L_RUN && CH && CH->state != CH_REAPED) expect(op, 0, 0, "destroy with policy {terminate, INFINITE} left the child unreaped");
      if (vk_fd_ledger_open_count() || vk_heap_live_count())
        expect(op, 0, 0, "destroy left descriptors or memory behind");
      P = hx_new();
      life = L_NS;
      CH = NULL;
      for (int i = 0; i < 3; i++) { endst[i] = E_NOPIPE; pfd[i] = -1; endcause[i] = 0; }
      excause = 0;
      break;
    }
    case OP_CHILD_STEP:
      if (CH && vk_child_enabled(CH)) { vk_child_step(CH); vk_obs("child-step"); }
      else vk_obs("child-step(nothing)");
      break;
    case OP_TIME_PASSES:
      vk_advance(5);
      vk_obs("time+5");
      break;
    case OP_NULL_HANDLE: {
      reproc_options o;
      memset(&o, 0, sizeof o);
      reproc_stop_actions sa = { { REPROC_STOP_WAIT, 0 }, { REPROC_STOP_NOOP, 0 }, { REPROC_STOP_NOOP, 0 } };
      int rs[9];
      rs[0] = reproc_start(NULL, hx_helper_argv(), o);
      rs[1] = reproc_pid(NULL);
      rs[2] = reproc_read(NULL, REPROC_STREAM_OUT, buf, 4);
      rs[3] = reproc_write(NULL, buf, 1);
      rs[4] = reproc_close(NULL, REPROC_STREAM_IN);
      rs[5] = reproc_wait(NULL, 0);
      rs[6] = reproc_terminate(NULL);
      rs[7] = reproc_kill(NULL);
      rs[8] = reproc_stop(NULL, sa);
      for (int i = 0; i < 9; i++) expect(op, rs[i], rs[i] == REPROC_EINVAL, "a NULL handle is rejected");
      expect(op, 0, reproc_destroy(NULL) == NULL, "destroy(NULL) is ignored");
      reproc_sink sk = { NULL, NULL };
      int rd = reproc_drain(P, sk, sk);
      expect(op, rd, rd == REPROC_EINVAL, "a sink without function is rejected");
      vk_obs("null-handle-calls");
      break;
    }
  }
}

static void c14_hang(const char *where)
{
  vk_obs("hang(%s)", where);
  S->state_terminal = 1;
  if (!strncmp(where, "livelock", 8)) { vk_violation("C14", "busy-wait", "h_c14", "a call spins (%s)", where); return; }
  /* a blocking call on a child that will not end (echo child with stdin open) legitimately blocks */
  if (life == L_RUN && CH && CH->state == CH_RUNNING && !strcmp(where, "poll")) return;
  vk_violation("C14", "unexpected-hang", "h_c14", "blocked forever in %s in state %s", where, lname());
}

static uint64_t mix(uint64_t h, uint64_t v) { return (h ^ v) * 1099511628211ull + 0x9E37; }

static void c14_run(int tier, long cfg)
{
  (void) tier;
  memset(&vk_cfg, 0, sizeof vk_cfg);
  vk_cfg.vlimit = 24;
  vk_cfg.hello_lite = 1;
  vk_cfg.real_exec = 0;
  char hist[200] = "";
  snprintf(key, sizeof key, "h_c14|first=%s", op_names[cfg]);
  hx_begin();
  vk_set_hang_hook(c14_hang);
  snprintf(S->crashkey, sizeof S->crashkey, "h_c14|first=%s", op_names[cfg]);
  P = hx_new();
  life = L_NS;
  CH = NULL;
  for (int i = 0; i < 3; i++) { endst[i] = E_NOPIPE; pfd[i] = -1; endcause[i] = 0; }
  excause = 0;
  int op = (int) cfg;
  for (;;) {
    snprintf(hist + strlen(hist), sizeof hist - strlen(hist), "%s%s", hist[0] ? "," : "", op_names[op]);
    hx_desc("h_c14|%s", hist);
    cur_op = op;
    do_op(op);
    if (S->ntrace >= S->prefix_len) break;
    op = vk_choose(K_OP, NOPS, 0, "op");
  }
  /* canonical state: life cycle, stream ends, child progress, pending bytes, ledgers, deadline-relevant clock */
  uint64_t h = 1469598103934665603ull;
  h = mix(h, (uint64_t) life);
  h = mix(h, life == L_EX ? (uint64_t) status_val : 0);
  for (int i = 0; i < 3; i++) h = mix(h, (uint64_t) endst[i]);
  for (int i = 0; i < 3; i++) h = mix(h, (uint64_t) endcause[i]);
  h = mix(h, (uint64_t) excause);
  h = mix(h, CH ? (uint64_t) CH->state : 99);
  h = mix(h, CH ? (uint64_t) CH->pos : 99);
  h = mix(h, CH ? (uint64_t) CH->nsteps : 99);
  for (int i = 0; i < 3; i++) h = mix(h, CH ? (uint64_t) CH->closed_fd[i] : 0);
  for (int i = 1; i < 3; i++) {
    int avail = 0;
    if (life != L_NS && endst[i] == E_OPEN && end_held(i)) ioctl(pfd[i], FIONREAD, &avail);
    h = mix(h, (uint64_t) avail);
  }
  h = mix(h, CH ? (uint64_t) (CH->in_n % 7) : 0);
  h = mix(h, (uint64_t) vk_fd_ledger_open_count());
  h = mix(h, (uint64_t) vk_heap_live_count());
  h = mix(h, (uint64_t) (vk_now() % 1000 > 0)); /* has time passed since the epoch (only matters with a stale deadline) */
  h = mix(h, (uint64_t) vk_nchildren > 2 ? 3 : (uint64_t) vk_nchildren);
  S->state_digest = h;
  /* leave nothing behind */
  if (CH && CH->state == CH_RUNNING) { kill(CH->pid, SIGKILL); }
}

static long c14_n(int tier) { (void) tier; return NOPS; }

const struct hx_harness h_c14 = { "C14", "h_c14", c14_n, c14_run, NULL, NULL, NOPS, { 3, 5 } };
