// h_launch_cxx.cpp — C03 through reproc++: argument and environment containers are converted by header-only code (arguments.hpp, env.hpp,
// detail/array.hpp) before they reach the C layer; what the child receives must still be exactly what was passed. Built into the sanitizer
// variant: the conversion allocates one block per string, and a block that is too small by one byte is only visible that way.
#include "hx.h"

#include <reproc++/reproc.hpp>
#include <reproc++/run.hpp>

#include <sys/stat.h>

#include <cstdio>
#include <cstring>
#include <map>
#include <string>
#include <utility>
#include <vector>

namespace {

char key[200];

// entry lengths name + '=' + value around the sizes an allocator rounds to
const int lens[] = { 2, 3, 8, 15, 16, 17, 23, 24, 25, 31, 32, 33, 39, 40, 41, 56, 72 };
const int NLENS = 17;

void launch_run2(long k);

void launch_run(int tier, long cfg)
{
  (void) tier;
  if (cfg >= 2L * NLENS * 3) { launch_run2(cfg - 2L * NLENS * 3); return; }
  int behavior = (int) (cfg % 2);
  cfg /= 2;
  int li = (int) (cfg % NLENS);
  int n = 1 + (int) (cfg / NLENS); // 1..3 entries, the first of length lens[li], the others one shorter / longer
  memset(&vk_cfg, 0, sizeof vk_cfg);
  vk_cfg.vlimit = 24;
  snprintf(key, sizeof key, "h_c03_cxx|env=%s|entries=%d|length=%d", behavior ? "empty" : "extend", n, lens[li]);
  hx_desc("%s", key);
  snprintf(key, sizeof key, "h_c03_cxx|env=%s", behavior ? "empty" : "extend");
  hx_begin();
  snprintf(S->crashkey, sizeof S->crashkey, "%s", key);
  std::vector<std::pair<std::string, std::string>> extra;
  std::vector<std::string> want;
  for (int i = 0; i < n; i++) {
    int len = lens[li] + (i == 1 ? -1 : i == 2 ? 1 : 0);
    if (len < 2) len = 2;
    std::string name = "V" + std::to_string(i);
    if ((int) name.size() + 1 > len) name = "V";
    std::string value((size_t) (len - (int) name.size() - 1), (char) ('p' + i));
    extra.push_back({ name, value });
    want.push_back(name + "=" + value);
  }
  std::vector<std::string> args = { vk_helper_path, std::string((size_t) lens[li], 'a'), "", std::string((size_t) lens[(li + 3) % NLENS] - 1, 'b') };
  reproc::options o;
  o.env.behavior = behavior ? reproc::env::empty : reproc::env::extend;
  o.env.extra = reproc::env(extra);
  vk_script("");
  {
    reproc::process p;
    std::error_code ec = p.start(reproc::arguments(args), o);
    if (ec) { vk_violation("C03", "start", key, "reproc++ start failed: %s", ec.message().c_str()); return; }
    struct vk_child *c = &vk_children[0];
    if (!c->have_hello) vk_violation("C04", "success-without-program", key, "no hello");
    else {
      int np = 0;
      if (!behavior) while (vk_environ[np]) np++;
      bool ok = c->hello.envc == np + (int) want.size();
      for (int i = 0; ok && i < np; i++) ok = !strcmp(c->hello.envp[i], vk_environ[i]);
      for (size_t i = 0; ok && i < want.size(); i++) ok = want[i] == c->hello.envp[np + (int) i];
      if (!ok) vk_violation("C03", "env-exact", key, "through reproc++ the child has %d environment entries, expected %d, or an entry differs (entry length %d)", c->hello.envc, np + (int) want.size(), lens[li]);
      bool aok = c->hello.argc == (int) args.size();
      for (size_t i = 0; aok && i < args.size(); i++) aok = args[i] == c->hello.argv[i];
      if (!aok) vk_violation("C03", "argv-exact", key, "through reproc++ the child received %d arguments, %zu were passed, or one differs", c->hello.argc, args.size());
    }
    p.kill();
    p.wait(reproc::infinite);
  }
}

// the convenience entry points copy the options before they start the child (options cannot be copied implicitly): what was asked for must survive
void launch_run2(long k)
{
  memset(&vk_cfg, 0, sizeof vk_cfg);
  vk_cfg.vlimit = 24;
  snprintf(key, sizeof key, "h_c03_cxx|run(arguments, options)|variant=%ld", k);
  hx_desc("%s", key);
  snprintf(key, sizeof key, "h_c03_cxx|run(arguments, options)");
  hx_begin();
  snprintf(S->crashkey, sizeof S->crashkey, "%s", key);
  mkdir("sub", 0755);
  std::vector<std::pair<std::string, std::string>> extra = { { "RUN2", "yes" } };
  std::vector<std::string> args = { vk_helper_path, "one", "" };
  reproc::options o;
  o.working_directory = "sub";
  o.env.behavior = k ? reproc::env::empty : reproc::env::extend;
  o.env.extra = reproc::env(extra);
  o.redirect.discard = true;
  vk_script("X0");
  std::pair<int, std::error_code> res = reproc::run(args, o);
  if (res.second || res.first != 0) { vk_violation("C03", "start", key, "reproc::run returned %d / %s", res.first, res.second.message().c_str()); return; }
  if (vk_nchildren != 1 || !vk_children[0].have_hello) { vk_violation("C04", "success-without-program", key, "no hello"); return; }
  struct vk_child *c = &vk_children[0];
  char want[600];
  snprintf(want, sizeof want, "%s/sub", hx_workdir);
  if (strcmp(c->hello.cwd, want)) vk_violation("C03", "cwd-exact", key, "through reproc::run(arguments, options) the child runs in \"%s\", \"%s\" was requested", c->hello.cwd, want);
  int np = 0;
  if (!k) while (vk_environ[np]) np++;
  if (c->hello.envc != np + 1 || strcmp(c->hello.envp[np], "RUN2=yes")) vk_violation("C03", "env-exact", key, "through reproc::run(arguments, options) the environment differs (%d entries)", c->hello.envc);
  if (c->hello.argc != 3 || strcmp(c->hello.argv[1], "one") || strcmp(c->hello.argv[2], "")) vk_violation("C03", "argv-exact", key, "through reproc::run(arguments, options) the arguments differ (%d)", c->hello.argc);
}

long launch_n(int tier) { (void) tier; return 2L * NLENS * 3 + 2; }

} // namespace

extern "C" const struct hx_harness h_c03_cxx = { "C03", "h_c03_cxx", launch_n, launch_run, nullptr, nullptr, 0, { 0, 0 }, 0 };
