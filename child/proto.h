/* Control protocol between the harness (vk) and the scripted helper child. */
#ifndef VCHILD_PROTO_H
#define VCHILD_PROTO_H
#include <stdint.h>

#ifdef __cplusplus
extern "C" {
#endif

#define HARNESS_FD_BASE 3000 /* every descriptor the harness owns is >= this */
#define CTL_CHILD_FD 3900    /* control socket as seen by an exec'd helper   */

enum { IMG_REAL = 1, IMG_EMUL = 2, IMG_FORKED = 3 };

/* parent -> child, fixed size */
struct vc_cmd {
  int32_t op; /* 'W','R','C','X','K','S','E','D','Q','P' ... */
  int32_t a;
  int32_t b;
};

/* child -> parent, followed by n payload bytes when st == ST_DATA/ST_HELLO */
struct vc_rep {
  int32_t st;
  int32_t n;
};

enum {
  ST_DONE = 0,     /* step complete */
  ST_PROGRESS = 1, /* n bytes moved, step not complete */
  ST_BLOCKED = 2,  /* nothing happened */
  ST_EOF = 3,      /* read saw end of file */
  ST_ERR = 4,      /* n = errno */
  ST_SIG = 5,      /* asynchronous: handler for signal n ran */
  ST_HELLO = 6,    /* n bytes of hello payload follow */
  ST_DATA = 7,     /* n bytes of data follow (R step), step may or may not be complete: b in cmd */
  ST_READY = 8,    /* probe: next step would make progress */
  ST_LIBSTEP = 9,  /* fork mode: forked side is about to perform an observable library step */
};

struct vc_fdinfo {
  int32_t fd;
  int32_t flags;   /* F_GETFL */
  int32_t fdflags; /* F_GETFD */
  uint32_t mode;   /* st_mode */
  uint64_t dev, ino, rdev;
};

static inline uint8_t vc_pat(int stream, uint32_t k)
{
  uint8_t v = (uint8_t) (k * 131u + (k >> 8) * 31u + (uint32_t) stream * 89u + 17u);
  return v ? v : 0x5b; /* never NUL: the string sink keeps C strings */
}

void vchild_run(int ctl, int image, char *const *argv, char *const *envp);

#ifdef __cplusplus
}
#endif

#endif
