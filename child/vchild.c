/* Scripted helper child: executes one step per command from the harness.
 * Linked into the harness (emulated exec / forked side) and built as a static
 * binary (real exec). It never looks at a clock and never acts on its own. */
#ifndef _GNU_SOURCE
#define _GNU_SOURCE
#endif
#include "proto.h"

#include <dirent.h>
#include <errno.h>
#include <fcntl.h>
#include <poll.h>
#include <signal.h>
#include <stdio.h>
#include <stdlib.h>
#include <string.h>
#include <sys/resource.h>
#include <sys/stat.h>
#include <sys/types.h>
#include <time.h>
#include <unistd.h>

static int g_ctl = -1;
static volatile sig_atomic_t g_sig[65];
static volatile sig_atomic_t g_sigany;

static void die(int code)
{
  _exit(code);
}

static void xwrite(const void *p, size_t n)
{
  const char *c = p;
  while (n > 0) {
    ssize_t w = write(g_ctl, c, n);
    if (w < 0) {
      if (errno == EINTR) continue;
      die(98);
    }
    c += w;
    n -= (size_t) w;
  }
}

/* returns 0 on EOF */
static int xread(void *p, size_t n)
{
  char *c = p;
  while (n > 0) {
    ssize_t r = read(g_ctl, c, n);
    if (r < 0) {
      if (errno == EINTR) continue;
      die(98);
    }
    if (r == 0) return 0;
    c += r;
    n -= (size_t) r;
  }
  return 1;
}

static void reply(int st, int n, const void *data, size_t len)
{
  struct vc_rep r = { st, n };
  xwrite(&r, sizeof r);
  if (len) xwrite(data, len);
}

static void on_signal(int s)
{
  /* The helper is idle whenever the harness lets a signal reach it, so the notification cannot
   * interleave with a reply; write() is async-signal-safe. */
  int e = errno;
  struct vc_rep r = { ST_SIG, s };
  if (s >= 0 && s < 65) g_sig[s]++;
  (void) !write(g_ctl, &r, sizeof r);
  errno = e;
}


/* ---- hello ------------------------------------------------------------ */

struct buf {
  char *p;
  size_t n, cap;
};

static void bput(struct buf *b, const void *d, size_t n)
{
  if (b->n + n > b->cap) {
    size_t nc = b->cap ? b->cap * 2 : 4096;
    while (nc < b->n + n) nc *= 2;
    b->p = realloc(b->p, nc);
    if (!b->p) die(96);
    b->cap = nc;
  }
  memcpy(b->p + b->n, d, n);
  b->n += n;
}
static void bput32(struct buf *b, uint32_t v) { bput(b, &v, 4); }
static void bput64(struct buf *b, uint64_t v) { bput(b, &v, 8); }
static void bputs(struct buf *b, const char *s)
{
  uint32_t n = (uint32_t) strlen(s);
  bput32(b, n);
  bput(b, s, n);
}

static void snapshot(struct buf *b, int image_arg, char *const *argv, char *const *envp)
{
  int image = image_arg & 0xff, lite = image_arg & 0x100, bound = (image_arg >> 12) & 0xfff;
  bput32(b, (uint32_t) getpid());
  bput32(b, (uint32_t) image);
  uint32_t n = 0;
  while (argv && argv[n]) n++;
  bput32(b, n);
  for (uint32_t i = 0; i < n; i++) bputs(b, argv[i]);
  n = 0;
  while (envp && envp[n]) n++;
  bput32(b, n);
  for (uint32_t i = 0; i < n; i++) bputs(b, envp[i]);
  /* cwd: may be longer than PATH_MAX */
  {
    size_t cap = 4096;
    char *cwd = NULL;
    for (;;) {
      cwd = realloc(cwd, cap);
      if (!cwd) die(96);
      if (getcwd(cwd, cap)) break;
      if (errno != ERANGE || cap > (1u << 20)) {
        strcpy(cwd, "?");
        break;
      }
      cap *= 2;
    }
    bputs(b, cwd);
    free(cwd);
  }
  /* signal state through system calls (cheap, exact) */
  uint64_t blk = 0, ign = 0, cgt = 0;
  sigset_t cur;
  sigemptyset(&cur);
  sigprocmask(SIG_SETMASK, NULL, &cur);
  for (int s = 1; s < (lite ? 1 : 32); s++) {
    if (sigismember(&cur, s) == 1) blk |= 1ull << s;
    struct sigaction sa;
    if (sigaction(s, NULL, &sa) == 0) {
      if (sa.sa_handler == SIG_IGN) ign |= 1ull << s;
      else if (sa.sa_handler != SIG_DFL) cgt |= 1ull << s;
    }
  }
  bput64(b, blk);
  bput64(b, ign);
  bput64(b, cgt);
  /* descriptors */
  size_t cntpos = b->n;
  bput32(b, 0);
  uint32_t cnt = 0;
  if (lite && bound > 0) {
    for (int fd = 0; fd < bound; fd++) {
      struct stat st;
      struct vc_fdinfo fi;
      int fdfl = fcntl(fd, F_GETFD);
      if (fdfl < 0) continue;
      memset(&fi, 0, sizeof fi);
      fi.fd = fd;
      if (fstat(fd, &st) == 0) { fi.mode = st.st_mode; fi.dev = st.st_dev; fi.ino = st.st_ino; fi.rdev = st.st_rdev; }
      fi.flags = fcntl(fd, F_GETFL);
      fi.fdflags = fdfl;
      bput(b, &fi, sizeof fi);
      cnt++;
    }
  }
  DIR *d = lite && bound > 0 ? NULL : opendir("/proc/self/fd");
  if (d) {
    int dfd = dirfd(d);
    struct dirent *e;
    while ((e = readdir(d))) {
      if (e->d_name[0] < '0' || e->d_name[0] > '9') continue;
      int fd = atoi(e->d_name);
      if (fd == dfd || fd >= HARNESS_FD_BASE) continue;
      struct stat st;
      struct vc_fdinfo fi;
      memset(&fi, 0, sizeof fi);
      fi.fd = fd;
      if (fstat(fd, &st) == 0) {
        fi.mode = st.st_mode;
        fi.dev = st.st_dev;
        fi.ino = st.st_ino;
        fi.rdev = st.st_rdev;
      }
      fi.flags = fcntl(fd, F_GETFL);
      fi.fdflags = fcntl(fd, F_GETFD);
      bput(b, &fi, sizeof fi);
      cnt++;
    }
    closedir(d);
  }
  memcpy(b->p + cntpos, &cnt, 4);
}

/* ---- steps ------------------------------------------------------------ */

static uint32_t g_woff[3];   /* pattern offset per stream written */
static char g_echo[65536];
static size_t g_echo_n, g_echo_off;
static int g_echo_eof;
static int g_echo_total; /* bytes echoed to stdout so far */

static int set_nb(int fd, int on)
{
  int fl = fcntl(fd, F_GETFL);
  if (fl < 0) return -1;
  int want = on ? (fl | O_NONBLOCK) : (fl & ~O_NONBLOCK);
  if (want != fl) fcntl(fd, F_SETFL, want);
  return fl;
}

static void restore_fl(int fd, int fl)
{
  if (fl >= 0) fcntl(fd, F_SETFL, fl);
}

static int ready(int fd, short ev)
{
  struct pollfd p = { fd, ev, 0 };
  int r = poll(&p, 1, 0);
  if (r < 0) return 1;
  return r > 0 && p.revents != 0;
}

/* write up to n pattern bytes for stream `fd`; reply DONE/PROGRESS/BLOCKED/ERR */
static void step_write(int fd, int n, int probe)
{
  if (probe) {
    reply(ready(fd, POLLOUT) || n == 0 ? ST_READY : ST_BLOCKED, 0, NULL, 0);
    return;
  }
  int sidx = fd >= 0 && fd < 3 ? fd : 0;
  static char chunk[65536];
  int done = 0;
  int fl = set_nb(fd, 1);
  int st = ST_DONE, val = 0;
  if (n == 0) {
    ssize_t w = write(fd, chunk, 0);
    if (w < 0) { st = ST_ERR; val = errno; }
  }
  while (done < n) {
    int c = n - done;
    if (c > (int) sizeof chunk) c = (int) sizeof chunk;
    for (int i = 0; i < c; i++) chunk[i] = (char) vc_pat(fd, g_woff[sidx] + (uint32_t) i);
    ssize_t w = write(fd, chunk, (size_t) c);
    if (w < 0) {
      if (errno == EINTR) continue;
      if (errno == EAGAIN) { st = done ? ST_PROGRESS : ST_BLOCKED; val = done; break; }
      st = ST_ERR; val = errno; break;
    }
    done += (int) w;
    g_woff[sidx] += (uint32_t) w;
    val = done;
  }
  restore_fl(fd, fl);
  reply(st, val, NULL, 0);
}

/* read up to n bytes from stdin (n<0: until EOF, in pieces) */
static void step_read(int n, int probe)
{
  if (probe) {
    reply(ready(0, POLLIN) ? ST_READY : ST_BLOCKED, 0, NULL, 0);
    return;
  }
  static char buf[65536];
  size_t want = n < 0 || n > (int) sizeof buf ? sizeof buf : (size_t) n;
  int fl = set_nb(0, 1);
  ssize_t r;
  do r = read(0, buf, want); while (r < 0 && errno == EINTR);
  int e = errno;
  restore_fl(0, fl);
  if (r < 0) {
    if (e == EAGAIN) reply(ST_BLOCKED, 0, NULL, 0);
    else reply(ST_ERR, e, NULL, 0);
  } else if (r == 0) {
    reply(ST_EOF, 0, NULL, 0);
  } else {
    reply(ST_DATA, (int) r, buf, (size_t) r);
  }
}

/* echo: move bytes stdin -> stdout without ever blocking */
static void step_echo(int probe)
{
  if (probe) {
    int ok = g_echo_n > g_echo_off ? ready(1, POLLOUT) : (g_echo_eof ? 1 : ready(0, POLLIN));
    reply(ok ? ST_READY : ST_BLOCKED, 0, NULL, 0);
    return;
  }
  int moved = 0;
  if (g_echo_n == g_echo_off && !g_echo_eof) {
    g_echo_n = g_echo_off = 0;
    int fl = set_nb(0, 1);
    ssize_t r;
    do r = read(0, g_echo, sizeof g_echo); while (r < 0 && errno == EINTR);
    int e = errno;
    restore_fl(0, fl);
    if (r < 0 && e != EAGAIN) { reply(ST_ERR, e, NULL, 0); return; }
    if (r == 0) g_echo_eof = 1;
    if (r > 0) { g_echo_n = (size_t) r; moved = 1; }
  }
  if (g_echo_n > g_echo_off) {
    int fl = set_nb(1, 1);
    ssize_t w;
    do w = write(1, g_echo + g_echo_off, g_echo_n - g_echo_off); while (w < 0 && errno == EINTR);
    int e = errno;
    restore_fl(1, fl);
    if (w < 0 && e != EAGAIN) { reply(ST_ERR, e, NULL, 0); return; }
    if (w > 0) { g_echo_off += (size_t) w; g_echo_total += (int) w; moved = 1; }
  }
  if (g_echo_eof && g_echo_n == g_echo_off) reply(ST_EOF, g_echo_total, NULL, 0);
  else reply(moved ? ST_PROGRESS : ST_BLOCKED, g_echo_total, NULL, 0);
}

/* ---- autonomous mode (free-running validation): the whole script runs by itself, `gap` ms before each step, with
 * blocking I/O like an ordinary program; a report of what was read/written is sent before the process ends ---- */
static char *a_in;
static size_t a_in_n, a_in_cap;
static int a_in_eof;

static void a_append(const char *d, size_t n)
{
  if (a_in_n + n > a_in_cap) {
    a_in_cap = a_in_cap ? a_in_cap * 2 : 4096;
    while (a_in_cap < a_in_n + n) a_in_cap *= 2;
    a_in = realloc(a_in, a_in_cap);
    if (!a_in) die(96);
  }
  memcpy(a_in + a_in_n, d, n);
  a_in_n += n;
}

static void a_report(void)
{
  struct vc_rep r = { ST_DATA, (int) (a_in_n + 16) };
  uint32_t hdr[4] = { g_woff[1], g_woff[2], (uint32_t) a_in_eof, (uint32_t) g_echo_total };
  xwrite(&r, sizeof r);
  xwrite(hdr, sizeof hdr);
  if (a_in_n) xwrite(a_in, a_in_n);
}

static void msleep(int ms)
{
  struct timespec ts = { ms / 1000, (long) (ms % 1000) * 1000000 };
  while (nanosleep(&ts, &ts) < 0 && errno == EINTR) {}
}

/* a child that dies of SIGSEGV, SIGABRT, SIGQUIT ... normally leaves a core file, and its wait status then carries the "core dumped" bit on
 * top of the signal number: let that happen (the file lands in the scratch working directory) */
static void allow_core(void)
{
  struct rlimit rl;
  if (getrlimit(RLIMIT_CORE, &rl) == 0 && rl.rlim_cur != rl.rlim_max) {
    rl.rlim_cur = rl.rlim_max;
    setrlimit(RLIMIT_CORE, &rl);
  }
}

static void autonomous(int gap, const struct vc_cmd *steps, int n)
{
  static char chunk[65536];
  for (int i = 0; i < n; i++) {
    const struct vc_cmd *c = &steps[i];
    msleep(gap);
    switch (c->op) {
      case 'W': {
        int fd = c->a, left = c->b, sidx = fd >= 0 && fd < 3 ? fd : 0;
        if (left == 0) (void) !write(fd, chunk, 0);
        while (left > 0) {
          int k = left > (int) sizeof chunk ? (int) sizeof chunk : left;
          for (int j = 0; j < k; j++) chunk[j] = (char) vc_pat(fd, g_woff[sidx] + (uint32_t) j);
          ssize_t w = write(fd, chunk, (size_t) k);
          if (w < 0) { if (errno == EINTR) continue; break; }
          g_woff[sidx] += (uint32_t) w;
          left -= (int) w;
        }
        break;
      }
      case 'R': {
        int want = c->a, got = 0;
        for (;;) {
          if (want >= 0 && got >= want) break;
          size_t k = want < 0 ? sizeof chunk : (size_t) (want - got);
          if (k > sizeof chunk) k = sizeof chunk;
          ssize_t r = read(0, chunk, k);
          if (r < 0) { if (errno == EINTR) continue; break; }
          if (r == 0) { a_in_eof = 1; break; }
          a_append(chunk, (size_t) r);
          got += (int) r;
        }
        break;
      }
      case 'E':
        for (;;) {
          ssize_t r = read(0, chunk, sizeof chunk);
          if (r < 0) { if (errno == EINTR) continue; break; }
          if (r == 0) break;
          ssize_t off = 0;
          while (off < r) {
            ssize_t w = write(1, chunk + off, (size_t) (r - off));
            if (w < 0) { if (errno == EINTR) continue; off = r; break; }
            off += w;
            g_echo_total += (int) w;
          }
        }
        break;
      case 'C': case 'D': close(c->a); break;
      case 'Z':
        for (int fd = 0; fd < 256; fd++) if (fd != g_ctl) close(fd);
        break;
      case 'S': {
        struct sigaction sa;
        memset(&sa, 0, sizeof sa);
        sigemptyset(&sa.sa_mask);
        sa.sa_handler = c->b == 'I' ? SIG_IGN : c->b == 'H' ? on_signal : SIG_DFL;
        sigaction(c->a, &sa, NULL);
        break;
      }
      case 'X':
        a_report();
        _exit(c->a);
      case 'T':
        while (g_sig[c->a] == 0) pause();
        /* fall through */
      case 'K': {
        sigset_t ss;
        a_report();
        allow_core();
        signal(c->a, SIG_DFL);
        sigemptyset(&ss);
        sigaddset(&ss, c->a);
        sigprocmask(SIG_UNBLOCK, &ss, NULL);
        raise(c->a);
        break;
      }
    }
  }
  a_report();
}

void vchild_run(int ctl, int image, char *const *argv, char *const *envp)
{
  g_ctl = ctl;
  struct buf b = { 0 };
  snapshot(&b, image, argv, envp);
  reply(ST_HELLO, (int) b.n, b.p, b.n);
  free(b.p);
  b.p = NULL;
  /* the helper itself must survive a closed reader: it reports the error */
  signal(SIGPIPE, SIG_IGN);

  for (;;) {
    struct vc_cmd c;
    int r = xread(&c, sizeof c);
    if (r < 0) continue; /* interrupted by a handled signal: report it */
    if (r == 0) die(0);  /* harness went away */
    int probe = 0;
    int op = c.op;
    if (op & 0x100) { probe = 1; op &= 0xff; }
    switch (op) {
      case 'W': step_write(c.a, c.b, probe); break;
      case 'R': step_read(c.a, probe); break;
      case 'E': step_echo(probe); break;
      case 'C':
      case 'D':
        if (probe) { reply(ST_READY, 0, NULL, 0); break; }
        if (close(c.a) < 0) reply(ST_ERR, errno, NULL, 0);
        else reply(ST_DONE, 0, NULL, 0);
        break;
      case 'Z': {
        /* what the kernel does first when a process exits: every descriptor goes away (the exit handle among them)
         * while the process is not yet waitable. The control socket stays. */
        if (probe) { reply(ST_READY, 0, NULL, 0); break; }
        for (int fd = 0; fd < 256; fd++)
          if (fd != g_ctl) close(fd);
        reply(ST_DONE, 0, NULL, 0);
        break;
      }
      case 'X':
        if (probe) { reply(ST_READY, 0, NULL, 0); break; }
        _exit(c.a);
      case 'K': {
        if (probe) { reply(ST_READY, 0, NULL, 0); break; }
        sigset_t s;
        allow_core();
        signal(c.a, SIG_DFL);
        sigemptyset(&s);
        sigaddset(&s, c.a);
        sigprocmask(SIG_UNBLOCK, &s, NULL);
        raise(c.a);
        reply(ST_ERR, EINVAL, NULL, 0); /* the signal did not kill us */
        break;
      }
      case 'S': {
        if (probe) { reply(ST_READY, 0, NULL, 0); break; }
        struct sigaction sa;
        memset(&sa, 0, sizeof sa);
        sigemptyset(&sa.sa_mask);
        sa.sa_handler = c.b == 'I' ? SIG_IGN : c.b == 'H' ? on_signal : SIG_DFL;
        if (sigaction(c.a, &sa, NULL) < 0) reply(ST_ERR, errno, NULL, 0);
        else reply(ST_DONE, 0, NULL, 0);
        break;
      }
      case 'A': {
        /* hand over the rest of the script: c.a = gap in ms, c.b = number of steps that follow */
        int n = c.b;
        struct vc_cmd *steps = calloc((size_t) n + 1, sizeof *steps);
        if (n && xread(steps, (size_t) n * sizeof *steps) <= 0) die(98);
        reply(ST_DONE, 0, NULL, 0);
        autonomous(c.a, steps, n);
        free(steps);
        break;
      }
      case 'Q': {
        struct buf q = { 0 };
        snapshot(&q, image, argv, envp);
        reply(ST_HELLO, (int) q.n, q.p, q.n);
        free(q.p);
        break;
      }
      default:
        reply(ST_ERR, ENOSYS, NULL, 0);
    }
  }
}

#ifdef VCHILD_MAIN
extern char **environ;
int main(int argc, char **argv)
{
  (void) argc;
  if (fcntl(CTL_CHILD_FD, F_GETFD) < 0) {
    /* not started by the harness */
    return 97;
  }
  vchild_run(CTL_CHILD_FD, IMG_REAL, argv, environ);
  return 0;
}
#endif
