/* h_c20_tsan.c — free-running ThreadSanitizer monitor for C20: the same thread bodies as harness/h_thread.c, real
 * threads, real children (cat / sh), real clock, no scheduler. A cooperative scheduler's hand-offs are happens-before
 * edges that would blind a race detector, so data races are looked for here, in unscheduled runs. This is a monitor
 * over a fixed number of runs, not an enumeration (DESIGN.md 2.6). */
#define _GNU_SOURCE
#include <errno.h>
#include <pthread.h>
#include <reproc/drain.h>
#include <reproc/reproc.h>
#include <signal.h>
#include <stdio.h>
#include <stdlib.h>
#include <string.h>

static int failures;

static void *independent(void *arg)
{
  int id = (int) (long) arg;
  char code[32];
  snprintf(code, sizeof code, "cat; exit %d", 10 + id);
  const char *argv[] = { "/bin/sh", "-c", code, NULL };
  reproc_t *p = reproc_new();
  reproc_options o;
  memset(&o, 0, sizeof o);
  int r = reproc_start(p, argv, o);
  if (r < 0) { __atomic_add_fetch(&failures, 1, __ATOMIC_RELAXED); reproc_destroy(p); return NULL; }
  uint8_t data[5], buf[64];
  for (int i = 0; i < 5; i++) data[i] = (uint8_t) (0x40 + id * 16 + i);
  reproc_write(p, data, 5);
  reproc_close(p, REPROC_STREAM_IN);
  int n = 0;
  for (;;) {
    r = reproc_read(p, REPROC_STREAM_OUT, buf + n, sizeof buf - (size_t) n);
    if (r <= 0) break;
    n += r;
  }
  int st = reproc_wait(p, REPROC_INFINITE);
  if (n != 5 || memcmp(buf, data, 5) || st != 10 + id) __atomic_add_fetch(&failures, 1, __ATOMIC_RELAXED);
  const char *s = reproc_strerror(id == 1 ? REPROC_EPIPE : REPROC_ENOMEM);
  if (!s || !*s) __atomic_add_fetch(&failures, 1, __ATOMIC_RELAXED);
  reproc_destroy(p);
  return NULL;
}

struct dctx { int id; size_t n; int wrong; };

static int check_sink(REPROC_STREAM stream, const uint8_t *buffer, size_t size, void *context)
{
  struct dctx *d = context;
  if (stream != REPROC_STREAM_OUT) return 0;
  for (size_t i = 0; i < size; i++)
    if (buffer[i] != (uint8_t) ('a' + d->id)) d->wrong++;
  d->n += size;
  return 0;
}

/* each thread drains its own child, which prints 64 KiB of its own letter once its stdin is closed */
static void *drained(void *arg)
{
  int id = (int) (long) arg;
  char code[96];
  snprintf(code, sizeof code, "cat >/dev/null; head -c 65536 /dev/zero | tr '\\0' '%c'; exit %d", 'a' + id, 20 + id);
  const char *argv[] = { "/bin/sh", "-c", code, NULL };
  reproc_t *p = reproc_new();
  reproc_options o;
  memset(&o, 0, sizeof o);
  int r = reproc_start(p, argv, o);
  if (r < 0) { __atomic_add_fetch(&failures, 1, __ATOMIC_RELAXED); reproc_destroy(p); return NULL; }
  reproc_close(p, REPROC_STREAM_IN);
  struct dctx d = { id, 0, 0 };
  reproc_sink sk = { check_sink, &d };
  r = reproc_drain(p, sk, REPROC_SINK_NULL);
  int st = reproc_wait(p, REPROC_INFINITE);
  if (r != 0 || d.n != 65536 || d.wrong || st != 20 + id) __atomic_add_fetch(&failures, 1, __ATOMIC_RELAXED);
  reproc_destroy(p);
  return NULL;
}

static reproc_t *shared;
static uint8_t wdata[70000];

static void *writer(void *arg)
{
  (void) arg;
  size_t off = 0;
  while (off < sizeof wdata) {
    int r = reproc_write(shared, wdata + off, sizeof wdata - off);
    if (r <= 0) break;
    off += (size_t) r;
  }
  reproc_close(shared, REPROC_STREAM_IN);
  return NULL;
}

static void *reader(void *arg)
{
  size_t *total = arg;
  uint8_t buf[4096];
  for (;;) {
    int r = reproc_read(shared, REPROC_STREAM_OUT, buf, sizeof buf);
    if (r <= 0) break;
    for (int i = 0; i < r; i++)
      if (buf[i] != wdata[*total + (size_t) i]) failures++;
    *total += (size_t) r;
  }
  return NULL;
}

int main(int argc, char **argv)
{
  int runs = argc > 1 ? atoi(argv[1]) : 50;
  signal(SIGPIPE, SIG_IGN);
  for (size_t i = 0; i < sizeof wdata; i++) wdata[i] = (uint8_t) (i * 7 + 3);
  for (int k = 0; k < runs; k++) {
    pthread_t a, b, c;
    pthread_create(&a, NULL, independent, (void *) 1L);
    pthread_create(&b, NULL, independent, (void *) 2L);
    pthread_create(&c, NULL, independent, (void *) 3L);
    pthread_join(a, NULL);
    pthread_join(b, NULL);
    pthread_join(c, NULL);
    pthread_create(&a, NULL, drained, (void *) 1L);
    pthread_create(&b, NULL, drained, (void *) 2L);
    pthread_join(a, NULL);
    pthread_join(b, NULL);
    const char *cat[] = { "/bin/cat", NULL };
    shared = reproc_new();
    reproc_options o;
    memset(&o, 0, sizeof o);
    if (reproc_start(shared, cat, o) < 0) { failures++; reproc_destroy(shared); continue; }
    size_t total = 0;
    pthread_create(&a, NULL, writer, NULL);
    pthread_create(&b, NULL, reader, &total);
    pthread_join(a, NULL);
    pthread_join(b, NULL);
    if (total != sizeof wdata || reproc_wait(shared, REPROC_INFINITE) != 0) failures++;
    reproc_destroy(shared);
  }
  printf("{\"runs\":%d,\"functional_failures\":%d}\n", runs, failures);
  return failures ? 3 : 0;
}
