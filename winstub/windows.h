/* Minimal stand-in for <windows.h>: just enough for reproc's process.windows.c and utf.windows.c to compile on Linux
 * unchanged. Functions are implemented in h_c18.c (recording CreateProcessW, a real UTF-8 -> UTF-16 converter, ...). */
#ifndef VERIF_WINDOWS_H
#define VERIF_WINDOWS_H
#include <limits.h>
#include <stdbool.h>
#include <stddef.h>
#include <stdint.h>
#include <string.h>
#include <wchar.h>

typedef void *HANDLE;
typedef void *LPVOID;
typedef void *PVOID;
typedef unsigned long DWORD;
typedef DWORD *LPDWORD;
typedef int BOOL;
typedef unsigned short WORD;
typedef unsigned int UINT;
typedef unsigned char BYTE;
typedef BYTE *LPBYTE;
typedef size_t SIZE_T;
typedef SIZE_T *PSIZE_T;
typedef uintptr_t DWORD_PTR;
typedef wchar_t WCHAR;
typedef wchar_t *LPWSTR;
typedef const wchar_t *LPCWSTR;
typedef wchar_t *LPWCH;
typedef const char *LPCCH;
typedef const char *LPCSTR;

#define INVALID_HANDLE_VALUE ((HANDLE) (intptr_t) -1)
#define TRUE 1
#define FALSE 0
#define INFINITE 0xFFFFFFFFul
#define WAIT_FAILED 0xFFFFFFFFul

#define CREATE_NEW_PROCESS_GROUP 0x00000200ul
#define CREATE_UNICODE_ENVIRONMENT 0x00000400ul
#define EXTENDED_STARTUPINFO_PRESENT 0x00080000ul
#define HANDLE_FLAG_INHERIT 0x1ul
#define STARTF_USESHOWWINDOW 0x1ul
#define STARTF_USESTDHANDLES 0x100ul
#define SW_HIDE 0
#define SEM_NOGPFAULTERRORBOX 0x2u
#define CTRL_BREAK_EVENT 1
#define CP_UTF8 65001u
#define MB_ERR_INVALID_CHARS 0x8ul
#define PROC_THREAD_ATTRIBUTE_HANDLE_LIST 0x20002

#define ERROR_NOT_ENOUGH_MEMORY 8
#define ERROR_INSUFFICIENT_BUFFER 122
#define ERROR_CALL_NOT_IMPLEMENTED 120
#define ERROR_NO_UNICODE_TRANSLATION 1113
#define ERROR_INVALID_PARAMETER 87

typedef struct _SECURITY_ATTRIBUTES {
  DWORD nLength;
  LPVOID lpSecurityDescriptor;
  BOOL bInheritHandle;
} SECURITY_ATTRIBUTES, *LPSECURITY_ATTRIBUTES;

typedef struct _STARTUPINFOW {
  DWORD cb;
  LPWSTR lpReserved, lpDesktop, lpTitle;
  DWORD dwX, dwY, dwXSize, dwYSize, dwXCountChars, dwYCountChars, dwFillAttribute, dwFlags;
  WORD wShowWindow, cbReserved2;
  LPBYTE lpReserved2;
  HANDLE hStdInput, hStdOutput, hStdError;
} STARTUPINFOW, *LPSTARTUPINFOW;

typedef struct _PROC_THREAD_ATTRIBUTE_LIST *LPPROC_THREAD_ATTRIBUTE_LIST;

typedef struct _STARTUPINFOEXW {
  STARTUPINFOW StartupInfo;
  LPPROC_THREAD_ATTRIBUTE_LIST lpAttributeList;
} STARTUPINFOEXW;

typedef struct _PROCESS_INFORMATION {
  HANDLE hProcess, hThread;
  DWORD dwProcessId, dwThreadId;
} PROCESS_INFORMATION, *LPPROCESS_INFORMATION;

void SetLastError(DWORD e);
DWORD GetLastError(void);
BOOL SetHandleInformation(HANDLE h, DWORD mask, DWORD flags);
BOOL InitializeProcThreadAttributeList(LPPROC_THREAD_ATTRIBUTE_LIST l, DWORD count, DWORD flags, PSIZE_T size);
BOOL UpdateProcThreadAttribute(LPPROC_THREAD_ATTRIBUTE_LIST l, DWORD flags, DWORD_PTR attr, PVOID value, SIZE_T size, PVOID prev, PSIZE_T ret);
void DeleteProcThreadAttributeList(LPPROC_THREAD_ATTRIBUTE_LIST l);
LPWCH GetEnvironmentStringsW(void);
BOOL FreeEnvironmentStringsW(LPWCH p);
int MultiByteToWideChar(UINT cp, DWORD flags, LPCCH src, int srclen, LPWSTR dst, int dstlen);
UINT SetErrorMode(UINT m);
BOOL CreateProcessW(LPCWSTR app, LPWSTR cmdline, LPSECURITY_ATTRIBUTES pa, LPSECURITY_ATTRIBUTES ta, BOOL inherit, DWORD flags, LPVOID env, LPCWSTR cwd,
                    LPSTARTUPINFOW si, LPPROCESS_INFORMATION pi);
DWORD GetProcessId(HANDLE h);
DWORD WaitForSingleObject(HANDLE h, DWORD ms);
BOOL GetExitCodeProcess(HANDLE h, LPDWORD code);
BOOL GenerateConsoleCtrlEvent(DWORD ev, DWORD group);
BOOL TerminateProcess(HANDLE h, UINT code);
BOOL CloseHandle(HANDLE h);

#endif
