/* h_c18.c — C18: the Windows command line and environment block built by reproc's process.windows.c, run on
 * Linux against stub Win32 functions, enumerated exhaustively over a bounded alphabet (DESIGN.md 3/C18).
 * The real process_start() is called; CreateProcessW records what it was given. ASan/UBSan build. */
#define _GNU_SOURCE
#include <windows.h>

#include <errno.h>
#include <stdio.h>
#include <stdlib.h>
#include <string.h>
#include <time.h>

#include "process.h"

/* ------------------------------------------------------------------ stubs */
static DWORD last_error;
static wchar_t *rec_cmdline;     /* what CreateProcessW received */
static wchar_t *rec_env;
static size_t rec_env_len;       /* in wchar_t units, including the final NUL */
static const wchar_t *parent_block; /* what GetEnvironmentStringsW answers */
static int create_calls;

const HANDLE HANDLE_INVALID = INVALID_HANDLE_VALUE;
const int REPROC_SIGKILL = 137;
const int REPROC_SIGTERM = 143;
HANDLE handle_destroy(HANDLE h) { (void) h; return HANDLE_INVALID; }

void SetLastError(DWORD e) { last_error = e; }
DWORD GetLastError(void) { return last_error; }
BOOL SetHandleInformation(HANDLE h, DWORD mask, DWORD flags) { (void) h; (void) mask; (void) flags; return TRUE; }
BOOL InitializeProcThreadAttributeList(LPPROC_THREAD_ATTRIBUTE_LIST l, DWORD count, DWORD flags, PSIZE_T size)
{
  (void) count; (void) flags;
  if (!l) { *size = 64; last_error = ERROR_INSUFFICIENT_BUFFER; return FALSE; }
  return TRUE;
}
BOOL UpdateProcThreadAttribute(LPPROC_THREAD_ATTRIBUTE_LIST l, DWORD flags, DWORD_PTR attr, PVOID value, SIZE_T size, PVOID prev, PSIZE_T ret)
{ (void) l; (void) flags; (void) attr; (void) value; (void) size; (void) prev; (void) ret; return TRUE; }
void DeleteProcThreadAttributeList(LPPROC_THREAD_ATTRIBUTE_LIST l) { (void) l; }
UINT SetErrorMode(UINT m) { (void) m; return 0; }
DWORD GetProcessId(HANDLE h) { (void) h; return 4242; }
DWORD WaitForSingleObject(HANDLE h, DWORD ms) { (void) h; (void) ms; return 0; }
BOOL GetExitCodeProcess(HANDLE h, LPDWORD code) { (void) h; *code = 0; return TRUE; }
BOOL GenerateConsoleCtrlEvent(DWORD ev, DWORD group) { (void) ev; (void) group; return TRUE; }
BOOL TerminateProcess(HANDLE h, UINT code) { (void) h; (void) code; return TRUE; }
BOOL CloseHandle(HANDLE h) { (void) h; return TRUE; }

static size_t block_len(const wchar_t *b)
{
  /* length in units including the closing NUL of a NUL-separated, double-NUL-terminated block */
  size_t n = 0;
  if (!b) return 0;
  while (b[n]) n += wcslen(b + n) + 1;
  return n + 1;
}

LPWCH GetEnvironmentStringsW(void)
{
  size_t n = block_len(parent_block);
  wchar_t *c = malloc(n * sizeof(wchar_t));
  memcpy(c, parent_block, n * sizeof(wchar_t));
  return c;
}
BOOL FreeEnvironmentStringsW(LPWCH p) { free(p); return TRUE; }

/* UTF-8 -> UTF-16 code units (one per wchar_t), strict; srclen -1 = up to and including the NUL */
int MultiByteToWideChar(UINT cp, DWORD flags, LPCCH src, int srclen, LPWSTR dst, int dstlen)
{
  (void) cp;
  (void) flags;
  size_t n = srclen < 0 ? strlen(src) + 1 : (size_t) srclen;
  int out = 0;
  for (size_t i = 0; i < n;) {
    unsigned char c = (unsigned char) src[i];
    uint32_t cpnt;
    int len;
    if (c < 0x80) { cpnt = c; len = 1; }
    else if ((c & 0xe0) == 0xc0) { cpnt = c & 0x1f; len = 2; }
    else if ((c & 0xf0) == 0xe0) { cpnt = c & 0x0f; len = 3; }
    else if ((c & 0xf8) == 0xf0) { cpnt = c & 0x07; len = 4; }
    else { last_error = ERROR_NO_UNICODE_TRANSLATION; return 0; }
    if (i + (size_t) len > n) { last_error = ERROR_NO_UNICODE_TRANSLATION; return 0; }
    for (int k = 1; k < len; k++) {
      unsigned char cc = (unsigned char) src[i + (size_t) k];
      if ((cc & 0xc0) != 0x80) { last_error = ERROR_NO_UNICODE_TRANSLATION; return 0; }
      cpnt = (cpnt << 6) | (cc & 0x3f);
    }
    if ((len == 2 && cpnt < 0x80) || (len == 3 && cpnt < 0x800) || (len == 4 && cpnt < 0x10000) || cpnt > 0x10ffff || (cpnt >= 0xd800 && cpnt < 0xe000)) {
      last_error = ERROR_NO_UNICODE_TRANSLATION;
      return 0;
    }
    int units = cpnt >= 0x10000 ? 2 : 1;
    if (dst) {
      if (out + units > dstlen) { last_error = ERROR_INSUFFICIENT_BUFFER; return 0; }
      if (units == 1) dst[out] = (wchar_t) cpnt;
      else { cpnt -= 0x10000; dst[out] = (wchar_t) (0xd800 + (cpnt >> 10)); dst[out + 1] = (wchar_t) (0xdc00 + (cpnt & 0x3ff)); }
    }
    out += units;
    i += (size_t) len;
  }
  return out;
}

BOOL CreateProcessW(LPCWSTR app, LPWSTR cmdline, LPSECURITY_ATTRIBUTES pa, LPSECURITY_ATTRIBUTES ta, BOOL inherit, DWORD flags, LPVOID env, LPCWSTR cwd,
                    LPSTARTUPINFOW si, LPPROCESS_INFORMATION pi)
{
  (void) app; (void) pa; (void) ta; (void) inherit; (void) flags; (void) cwd; (void) si;
  create_calls++;
  free(rec_cmdline);
  free(rec_env);
  size_t n = wcslen(cmdline) + 1;
  rec_cmdline = malloc(n * sizeof(wchar_t));
  memcpy(rec_cmdline, cmdline, n * sizeof(wchar_t));
  rec_env_len = block_len(env);
  rec_env = malloc((rec_env_len ? rec_env_len : 1) * sizeof(wchar_t));
  if (rec_env_len) memcpy(rec_env, env, rec_env_len * sizeof(wchar_t));
  pi->hProcess = (HANDLE) (intptr_t) 0x1234;
  pi->hThread = (HANDLE) (intptr_t) 0x1238;
  return TRUE;
}

/* ------------------------------------------------------------------ oracle: the documented splitting rules
 * (CommandLineToArgvW / MSVCRT 2008+): argv[0] by the simple quote rule, the rest with backslash handling. */
static int split(const wchar_t *cmd, wchar_t out[][512], int maxargs)
{
  int argc = 0;
  size_t p = 0, n = 0;
  /* program name */
  if (cmd[p] == L'"') {
    p++;
    while (cmd[p] && cmd[p] != L'"') out[0][n++] = cmd[p++];
    if (cmd[p] == L'"') p++;
  } else {
    while (cmd[p] && cmd[p] != L' ' && cmd[p] != L'\t') out[0][n++] = cmd[p++];
  }
  out[0][n] = 0;
  argc = 1;
  for (;;) {
    while (cmd[p] == L' ' || cmd[p] == L'\t') p++;
    if (!cmd[p]) break;
    if (argc >= maxargs) return -1;
    n = 0;
    int inquote = 0;
    for (;;) {
      size_t nb = 0;
      while (cmd[p] == L'\\') { p++; nb++; }
      if (cmd[p] == L'"') {
        for (size_t k = 0; k < nb / 2; k++) out[argc][n++] = L'\\';
        if (nb % 2 == 0) {
          if (inquote && cmd[p + 1] == L'"') { out[argc][n++] = L'"'; p++; }
          else inquote = !inquote;
        } else out[argc][n++] = L'"';
        p++;
      } else {
        for (size_t k = 0; k < nb; k++) out[argc][n++] = L'\\';
        if (!cmd[p] || (!inquote && (cmd[p] == L' ' || cmd[p] == L'\t'))) break;
        out[argc][n++] = cmd[p++];
      }
      if (n > 500) return -1;
    }
    out[argc][n] = 0;
    argc++;
  }
  return argc;
}

/* ------------------------------------------------------------------ enumeration */
static const char sigma[7] = { 'a', ' ', '\t', '\n', '\v', '"', '\\' };
static long n_checked, n_quoted, n_unquoted, n_bs_before_quote, n_bs_at_end, n_empty, n_env, n_multibyte, n_clean_fail;
static long nviol;
static FILE *vout;
static char first_viol[4][700];
static int nfirst;

static void hexstr(const char *s, char *o, size_t on)
{
  size_t k = 0;
  for (; *s && k + 3 < on; s++) k += (size_t) snprintf(o + k, on - k, "%02x", (unsigned char) *s);
  o[k] = 0;
}

static void violation(const char *clause, const char *const *argv, const char *msg)
{
  nviol++;
  if (nfirst < 4) {
    char args[400] = "";
    for (int i = 0; argv && argv[i]; i++) {
      char hx[120];
      hexstr(argv[i], hx, sizeof hx);
      snprintf(args + strlen(args), sizeof args - strlen(args), "%s%s", i ? "," : "", argv[i][0] ? hx : "-");
    }
    snprintf(first_viol[nfirst++], 700, "{\"clause\":\"%s\",\"argv_hex\":\"%s\",\"msg\":\"%s\"}", clause, args, msg);
  }
}

static int utf8_to_units(const char *s, wchar_t *out, int cap)
{
  return MultiByteToWideChar(CP_UTF8, 0, s, -1, out, cap);
}

static void check_vector(const char *const *argv)
{
  struct process_options po;
  memset(&po, 0, sizeof po);
  po.env.behavior = REPROC_ENV_EMPTY;
  HANDLE h = NULL;
  create_calls = 0;
  int r = process_start(&h, argv, po);
  n_checked++;
  int argc = 0;
  while (argv[argc]) argc++;
  for (int i = 1; i < argc; i++) {
    const char *a = argv[i];
    size_t l = strlen(a);
    if (!l) n_empty++;
    if (strpbrk(a, " \t\n\v\"")) n_quoted++; else n_unquoted++;
    if (l && a[l - 1] == '\\') n_bs_at_end++;
    if (strstr(a, "\\\"")) n_bs_before_quote++;
  }
  if (r < 0 || create_calls != 1) { violation("process-created", argv, "process_start failed for a valid argument vector"); return; }
  static wchar_t parsed[8][512];
  int pc = split(rec_cmdline, parsed, 8);
  if (pc != argc) {
    char m[200];
    snprintf(m, sizeof m, "the command line splits into %d arguments, %d were passed", pc, argc);
    violation("argv-roundtrip", argv, m);
    return;
  }
  for (int i = 0; i < argc; i++) {
    wchar_t want[512];
    int n = utf8_to_units(argv[i], want, 512);
    if (n <= 0 || wcscmp(want, parsed[i]) != 0) {
      char m[200];
      snprintf(m, sizeof m, "argument %d does not survive the round trip", i);
      violation("argv-roundtrip", argv, m);
      return;
    }
  }
}

static void enum_vectors(int nargs, int maxlen, const char *argv0, long shard, long nshards)
{
  /* all vectors of exactly nargs arguments, each of length 0..maxlen over sigma */
  long per = 0, p = 1;
  for (int l = 0; l <= maxlen; l++) { per += p; p *= 7; }
  long total = 1;
  for (int i = 0; i < nargs; i++) total *= per;
  char buf[3][16];
  const char *argv[6];
  argv[0] = argv0;
  for (long idx = shard; idx < total; idx += nshards) {
    long k = idx;
    for (int a = 0; a < nargs; a++) {
      long s = k % per;
      k /= per;
      /* s-th string in length-lexicographic order */
      int len = 0;
      long cnt = 1;
      while (s >= cnt) { s -= cnt; cnt *= 7; len++; }
      for (int c = len - 1; c >= 0; c--) { buf[a][c] = sigma[s % 7]; s /= 7; }
      buf[a][len] = 0;
      argv[1 + a] = buf[a];
    }
    argv[1 + nargs] = NULL;
    check_vector(argv);
  }
}

static void check_env(const wchar_t *parent, int behavior, const char *const *extra, int expect_ok)
{
  struct process_options po;
  memset(&po, 0, sizeof po);
  po.env.behavior = behavior ? REPROC_ENV_EMPTY : REPROC_ENV_EXTEND;
  po.env.extra = extra;
  parent_block = parent;
  HANDLE h = NULL;
  create_calls = 0;
  const char *argv[] = { "prog", NULL };
  int r = process_start(&h, argv, po);
  n_env++;
  if (!expect_ok) {
    if (r >= 0) violation("env-invalid-utf8", argv, "an environment entry that is not valid UTF-8 was accepted");
    else n_clean_fail++;
    return;
  }
  if (r < 0) { violation("env-block", argv, "process_start failed for a valid environment"); return; }
  /* expected block: parent entries (when extending) then the extra entries, each NUL-terminated, one final NUL */
  static wchar_t want[8192];
  size_t n = 0;
  if (!behavior)
    for (const wchar_t *e = parent; e && *e; e += wcslen(e) + 1) { size_t l = wcslen(e) + 1; memcpy(want + n, e, l * sizeof(wchar_t)); n += l; }
  for (int i = 0; extra && extra[i]; i++) {
    int u = utf8_to_units(extra[i], want + n, (int) (8192 - n));
    n += (size_t) u;
  }
  want[n++] = 0;
  /* an empty extra entry reads as the end of the block: what CreateProcessW is handed then ends there, so only the prefix up to it is compared (the
   * bounds of the whole construction are the sanitizer's business) */
  for (int i = 0; extra && extra[i]; i++)
    if (!extra[i][0]) {
      if (rec_env_len > n || memcmp(want, rec_env, (rec_env_len ? rec_env_len - 1 : 0) * sizeof(wchar_t)) != 0) violation("env-block", argv, "environment block with an empty entry: the part before it differs");
      return;
    }
  if (n != rec_env_len || memcmp(want, rec_env, n * sizeof(wchar_t)) != 0) {
    char m[160];
    snprintf(m, sizeof m, "environment block differs: %zu units, expected %zu", rec_env_len, n);
    violation("env-block", argv, m);
  }
}

static void env_cases(void)
{
  static const wchar_t p_empty[] = L"\0";
  static const wchar_t p_one[] = L"ONE=1\0";
  static const wchar_t p_three[] = L"A=1\0=C:=C:\\dir\0PATH=C:\\Windows;C:\\x y\0";
  const wchar_t *parents[3] = { p_empty, p_one, p_three };
  static char longv[320];
  memset(longv, 'v', 305);
  memcpy(longv, "LONG=", 5);
  longv[305] = 0;
  const char *entries[8] = { "A=1", "B=", "=C", longv, "\xc3\x9c=\xc3\x9f", "NOEQUALS", "X=a=b", "" }; /* an entry without '=' is passed on as it is; so is an empty one (whatever a reader makes of it, it is counted and copied like any other) */
#define NENT 8
  for (int pi = 0; pi < 3; pi++)
    for (int beh = 0; beh < 2; beh++) {
      check_env(parents[pi], beh, NULL, 1);
      for (int a = 0; a < NENT; a++) {
        const char *e1[2] = { entries[a], NULL };
        check_env(parents[pi], beh, e1, 1);
        for (int b = 0; b < NENT; b++) {
          const char *e2[3] = { entries[a], entries[b], NULL };
          check_env(parents[pi], beh, e2, 1);
          for (int c = 0; c < NENT; c++) {
            const char *e3[4] = { entries[a], entries[b], entries[c], NULL };
            check_env(parents[pi], beh, e3, 1);
          }
        }
      }
      const char *empty_list[1] = { NULL };
      check_env(parents[pi], beh, empty_list, 1);
      const char *bad[2] = { "X=\xff\xfe", NULL };
      check_env(parents[pi], beh, bad, 0);
    }
}

static void multibyte_cases(void)
{
  static const char *const pieces[] = { "\xc3\xa9", "\xe2\x82\xac", "\xf0\x9f\x98\x80", "\xc3\xa9 \xe2\x82\xac", "\"\xc3\xa9\"", "\xe2\x82\xac\\", "\\\xf0\x9f\x98\x80\" x", "a\xc3\xa9\\\\" };
  for (size_t i = 0; i < sizeof pieces / sizeof pieces[0]; i++)
    for (size_t j = 0; j < sizeof pieces / sizeof pieces[0]; j++) {
      const char *argv[4] = { "prog", pieces[i], pieces[j], NULL };
      parent_block = L"\0";
      check_vector(argv);
      n_multibyte++;
    }
}

static void parse_replay(const char *spec)
{
  /* comma separated hex strings, "-" for the empty string */
  static char store[8][300];
  const char *argv[9];
  int n = 0;
  const char *p = spec;
  while (*p && n < 8) {
    size_t k = 0;
    if (*p == '-') p++;
    else
      while (p[0] && p[1] && p[0] != ',') { unsigned v; sscanf(p, "%2x", &v); store[n][k++] = (char) v; p += 2; }
    store[n][k] = 0;
    argv[n] = store[n];
    n++;
    if (*p == ',') p++;
  }
  argv[n] = NULL;
  parent_block = L"\0";
  check_vector(argv);
  if (rec_cmdline) {
    printf("command line:");
    for (wchar_t *w = rec_cmdline; *w; w++) printf(*w >= 32 && *w < 127 ? "%c" : "\\x%02x", (unsigned) *w);
    printf("\n");
  }
  for (int i = 0; i < nfirst; i++) printf("VIOLATED %s\n", first_viol[i]);
}

int main(int argc, char **argv)
{
  if (argc >= 3 && !strcmp(argv[1], "replay")) {
    parse_replay(argv[2]);
    return nviol ? 1 : 0;
  }
  if (argc < 6) { fprintf(stderr, "usage: h_c18 run <quick|thorough> <shard> <nshards> <out.json> | replay <hex,hex,...>\n"); return 2; }
  int tier = !strcmp(argv[2], "thorough");
  long shard = atol(argv[3]), nshards = atol(argv[4]);
  struct timespec t0, t1;
  clock_gettime(CLOCK_MONOTONIC, &t0);
  parent_block = L"\0";
  const char *argv0s[2] = { "prog", "my prog" };
  for (int a0 = 0; a0 < 2; a0++) {
    enum_vectors(1, tier ? 8 : 6, argv0s[a0], shard, nshards);
    enum_vectors(2, tier ? 4 : 3, argv0s[a0], shard, nshards);
    enum_vectors(3, tier ? 3 : 2, argv0s[a0], shard, nshards);
  }
  if (shard == 0) { env_cases(); multibyte_cases(); }
  clock_gettime(CLOCK_MONOTONIC, &t1);
  double wall = (double) (t1.tv_sec - t0.tv_sec) + (double) (t1.tv_nsec - t0.tv_nsec) / 1e9;
  vout = fopen(argv[5], "w");
  if (!vout) return 2;
  fprintf(vout, "{\"prop\":\"C18\",\"harness\":\"h_c18\",\"tier\":\"%s\",\"worker\":%ld,\"vectors\":%ld,\"env_cases\":%ld,\"multibyte\":%ld,\"violations_total\":%ld,"
                "\"clause_hits\":{\"needed-quoting\":%ld,\"no-quoting-needed\":%ld,\"backslashes-before-quote\":%ld,\"backslashes-at-end\":%ld,\"empty-string\":%ld,"
                "\"env-blocks\":%ld,\"invalid-utf8-clean-failure\":%ld},\"wall_s\":%.3f,\"violations\":[",
          tier ? "thorough" : "quick", shard, n_checked, n_env, n_multibyte, nviol, n_quoted, n_unquoted, n_bs_before_quote, n_bs_at_end, n_empty, n_env, n_clean_fail, wall);
  for (int i = 0; i < nfirst; i++) fprintf(vout, "%s%s", i ? "," : "", first_viol[i]);
  fprintf(vout, "]}\n");
  fclose(vout);
  return 0;
}
