#!/bin/sh
# runs every quick tier in turn (regenerates the committed evidence) and prints one line per property
cd "$(dirname "$0")/.."
for p in C01 C02 C03 C04 C05 C06 C07 C08 C09 C10 C11 C12 C13 C14 C15 C16 C17 C18 C19 C20; do
  s=$(date +%s)
  python3 run.py check $p --tier quick > /tmp/quick-$p.log 2>/tmp/quick-$p.err
  rc=$?
  e=$(date +%s)
  echo "$p rc=$rc wall=$((e-s))s $(grep -c '^VIOLATION' /tmp/quick-$p.log) violations | $(tail -1 /tmp/quick-$p.log | cut -c1-170)"
  grep "VACUOUS\|disagree" /tmp/quick-$p.err | cut -c1-220
done
