#!/bin/sh
# every seeded change against the quick check of its own property (plus the properties in seeded/<name>/also.txt), each in its own scratch
# worktree of /repo; P changes at a time with J workers each. /repo and /verif/evidence are not touched.
cd "$(dirname "$0")/.."
P=${1:-3}
J=${2:-5}
ls seeded | while read n; do
  [ -f seeded/$n/meta.json ] || continue
  extra=""
  [ -f seeded/$n/also.txt ] && extra=$(cat seeded/$n/also.txt)
  prop=$(python3 -c "import json;print(json.load(open('seeded/$n/meta.json'))['property'])")
  echo "$n $prop $extra" | sed "s/[[:space:]]*$//"
done | SEEDED_JOBS=$J xargs -P $P -L 1 sh -c 'python3 tools/seeded.py run-scratch "$@" 2>&1 | grep " on " | cut -c1-200' _
python3 tools/seeded.py table
