#!/bin/sh
# runs every thorough tier in turn and prints one line per property (used to make sure each tier finishes and stays quiet)
cd "$(dirname "$0")/.."
for p in C01 C02 C03 C04 C05 C06 C07 C08 C09 C10 C11 C12 C13 C14 C15 C16 C17 C18 C19 C20; do
  s=$(date +%s)
  python3 run.py check $p --tier thorough > /tmp/thorough-$p.log 2>&1
  rc=$?
  e=$(date +%s)
  echo "$p rc=$rc wall=$((e-s))s $(tail -1 /tmp/thorough-$p.log | cut -c1-200)"
  grep -c "^VIOLATION" /tmp/thorough-$p.log | sed 's/^/   violations: /'
done
