#!/usr/bin/env python3
"""Regenerates /verif/MANIFEST.json from the table below (kept next to the code so it stays current)."""
import json
import os
import sys

VERIF = os.path.dirname(os.path.dirname(os.path.abspath(__file__)))
sys.path.insert(0, VERIF)

COMMON_NOTE = ("Modelled parts and how they are bound to the implementation: serialised scheduling / virtual clock / emulated exec are re-run against "
               "free-running, real-clock and real-exec executions of the same configurations (DESIGN.md 8.1; counts in the evidence). Trusted base: Linux kernel + glibc answers for every call that is not an injected fault; gcc; objcopy symbol renaming; "
               "the harness code in /verif (vk wrappers, scripted helper, oracles). Scheduling granularity is the intercepted libc call (a libc symbol the library reaches "
               "that vk does not interpose is named in the evidence and clears `exhaustive`); "
               "the scripted child never touches the exit descriptor. POSIX sources only.")

CHECKS = {
    "C01": dict(
        cat="model_checking", design="3/C01",
        technique="stateless model checking of the real library: exhaustive DFS over child-step schedules / blocked-call outcomes / fault answers under a controlled libc layer",
        text="Every exit code 0..255 and every terminating signal (the helper lets core-dumping signals really dump, so their wait status carries the core bit), every API history up to depth 3 (quick) / 4 (thorough) over "
             "{wait 0/2/INF, terminate, kill, three stop sequences}, every point at which the child's end can be released relative to the "
             "library's poll/kill/waitpid/close calls (all alternatives at blocked calls, up to 2 scheduling deviations elsewhere) and, in the "
             "thorough tier, every single fault at poll/waitpid/kill (waitpid also answering ECHILD: somebody else reaped the child, after which no status may "
             "ever be returned) and two-handle configurations (the first started with input and given up while the second child runs; a deadline that has passed before/after the status exists; the exit learnt through poll on a handle without stream pipes): status equals the ending the harness caused, is never returned while the "
             "child ledger says running, is stable with zero further system calls, exactly one successful reap, no zombie."),
    "C04": dict(
        cat="model_checking", design="3/C04",
        technique="stateless model checking of the real library: exhaustive single-fault (quick) / fault-pair (thorough) enumeration over every intercepted libc call on both sides of fork, under a controlled libc layer",
        text="14 start scenarios (all redirect kinds, input, workdir+relative program, extra env, nonblocking, fork mode with the forked side first or the parent first, "
             "a standard descriptor of the parent as source of another stream, parent streams with stdin and stderr closed) "
             "x every answer of every fault menu at every libc call reproc_start makes in the parent and in the forked child, one at a time (quick) and "
             "in pairs (thorough); 12 natural failures with the real exec (missing/non-executable/over-long program, bad working directory, unusable "
             "redirect path, oversized input, name not in PATH, a stream sent to its own descriptor number that the caller has closed, launch failures with descriptors 0-2 all closed and everything discarded), each also combined with every single fault. Oracle by outcome: either a negative result that "
             "is the errno of a failing call, no child left, pid EINVAL, terminate/kill/wait refused without a system call, handle startable again (a deadline given to the "
             "failed natural-failure start must not survive into a restart without one) - or success with positive ledger pid, the helper image "
             "really running, stream identities right and a write/read/wait round trip."),
    "C05": dict(
        cat="model_checking", design="3/C05",
        technique="stateless model checking of the real library: exhaustive single-fault (quick) / fault-pair (thorough) enumeration over every intercepted libc call on both sides of fork, under a controlled libc layer",
        text="14 redirect/option scenarios x 9 API histories (destroy, wait, write/close/read-to-EOF, drain, terminate/wait/kill, kill/wait, run_ex, deadline passes then poll/drain/kill/wait, drain into string sinks) with "
             "user-owned FILE/handles/std streams, x every fault (including close EINTR/EIO and every allocation) at every libc call of the whole history: "
             "descriptor ledger empty and /proc/self/fd equal to the initial table, heap ledger empty, no foreign/double close or free (recorded and not "
             "executed), user objects still open on the same inode, children reaped."),
    "C06": dict(
        cat="model_checking", design="3/C06",
        technique="stateless model checking of the real library: exhaustive API histories x child-step schedules, plus single-fault enumeration during start, with a child ledger at the kill/waitpid boundary",
        text="Every kill()/waitpid() the library issues is checked against the child ledger (positive pid returned by fork for this handle, not yet reaped); "
             "calls that fail the rule are recorded and never reach the kernel. Space: every single start fault continued with terminate/wait/kill/"
             "terminate/destroy and kill/wait (14 scenarios), and all histories up to depth 3/4 over wait/terminate/kill/stop with the child's end released "
             "at every scheduling point (the C01 space), including stop sequences and terminate/kill after a successful wait; after every failed start "
             "terminate/kill/wait must be refused with no kill()/waitpid() at all (a handle that is not running names no process)."),
    "C12": dict(
        cat="model_checking", design="3/C12",
        technique="stateless model checking of the real library: exhaustive single-fault (quick) / fault-pair (thorough) enumeration over every intercepted libc call on both sides of fork, under a controlled libc layer",
        text="4 caller signal masks x 12 disposition tables x 14 scenarios with the real exec (child side: hello reports empty mask, nothing ignored or "
             "caught; in fork mode the forked side itself examines its mask and 31 dispositions where start returns 0) and the same scenarios under every single fault at every call of reproc_start (parent side: mask, 31 dispositions, cwd, environ "
             "pointer+content identical before/after on every return path; a failure of the restoring call itself is exempt, as the property says)."),
    "C07": dict(
        cat="model_checking", design="3/C07",
        technique="stateless model checking of the real library: exhaustive enumeration of stop triples x child behaviours x schedules/blocked-call outcomes under a virtual clock, clause-checking oracle over signals, result and virtual times",
        text="All stop triples over {noop, wait, terminate, kill, out-of-range} x timeouts {0, 2 ms, until-deadline, infinite} (quick: infinite only in the "
             "last non-noop slot, all-noop requests with 5 timeout settings; thorough: all distinguishable ones, all-noop with all 64 timeout settings) x deadline {none, 3 ms} x child {exits by itself at any "
             "scheduling/blocked point, dies on SIGTERM, handler then dies when released, ignores SIGTERM} x state {running, exited-unreaped, reaped}. "
             "Oracle: signals are a prefix of the actions' signals in order, each sent exactly when the preceding waits have expired on the virtual "
             "clock and never after the child's exit; status iff reaped and exact; ETIMEDOUT iff every slot ran and no wait could have seen the exit; "
             "EINVAL only at a reached out-of-range slot; a hang only inside an infinite slot with a child that cannot end. Every 11th (quick) / 3rd (thorough) "
             "configuration additionally under one failing kill() or one poll() interrupted by a signal after any elapsed time: the error is returned at "
             "that instant, nothing later. The handle state 'exited, reap interrupted' for every 8th triple (quick) / all (thorough); a handle restarted after a failed start with a deadline."),
    "C15": dict(
        cat="model_checking", design="3/C15",
        technique="stateless model checking of the real library: the C07 space driven through options.stop + reproc_destroy, plus handle-state enumeration",
        text="The C07 space through reproc_start(options.stop) + reproc_destroy (no result: judged from the child ledger, signals and virtual return "
             "time), the default policy (returns only with the child reaped, SIGTERM not before the deadline and never without one), destroy on "
             "NULL / never started / failed start / rejected options (no kill, poll, waitpid or close; ledgers clean), the forked side (h_start), the reproc++ destructor (h_c15_cxx: the signals sent are exactly those the policy given at start means for the child), and a "
             "handle whose first start failed with a deadline before the real start without one, the deadline given as REPROC_INFINITE, a clock that jumps 7 ms at one of the library's clock reads (order, completeness and liveness only), a deadline that reproc_poll has already reported, and a handle whose child has exited but whose reap was "
             "interrupted (an earlier wait returned EINTR)."),
    "C08": dict(
        cat="model_checking", design="3/C08",
        technique="stateless model checking of the real library under a virtual clock: exhaustive enumeration of source orders/deadlines/timeouts x blocked-call outcomes (every elapsed millisecond, timeout expiry, signal interruption) x clock-read deviations",
        text="reproc_wait: timeout {0,1,2,3,INFINITE,DEADLINE} x deadline {none,1,2,3,INT_MAX} x child {idle, exits at any point, two waits, fork mode, exited "
             "before the call, call 4 ms late with the child exited / idle, idle on a handle whose first start with a 1 ms deadline failed}. Poll sources also {deadline 2 ms, exited and waited for; expired, exited and waited for: the deadline event is still required}. "
             "reproc_poll: 1..2 (thorough 3) sources in every order, each {no process, no deadline, deadline 1/2/3 ms, already expired} x interests "
             "{EXIT, OUT, OUT|EXIT} x timeout {0,1,2,3,INFINITE} x children {idle, write, exit}, polled twice. Every alternative at every blocked OS "
             "poll (child event after each elapsed ms, expiry, EINTR after each elapsed ms) and clock jumps at clock reads, one deviation (quick) / two "
             "(thorough). Oracle: never returns after min(timeout, earliest deadline) on the virtual clock; 0 only at/after the timeout with no earlier "
             "deadline; a deadline event alone, on a source whose deadline has passed and is the earliest when it had to be waited for, immediately and "
             "again when already expired; no stale events; a hang only when nothing bounds the call."),
    "C09": dict(
        cat="model_checking", design="3/C09",
        technique="stateless model checking of the real library: exhaustive enumeration of stream/child states x interest masks x schedules, with kernel truth probes after every poll",
        text="1 and 3 sources (one of them process-less) x all 16 interest masks x stdout {idle, data pending, closed by child, closed by parent, EOF "
             "already reported, not a pipe} x stdin {idle, closed by child, closed by parent, pipe exactly full, full and then closed by the child, closed by the library after start-up input} x stdout also {idle after a read interrupted by a signal} x stderr {pipe, parent} x child {running, zombie, reaped, zombie whose reap was interrupted} x "
             "timeout {0, 2} x an expired deadline on the last source, with one remaining child step released at any scheduling/blocked point. After "
             "each return the harness polls the parent's own descriptors (matched to the child's by pipe inode): events == requested and ready, count == "
             "sources with events, EPIPE iff nothing requested is pollable, and every reported event is consumed (read / 1-byte write / wait(0)) without "
             "blocking or would-block."),
    "C02": dict(
        cat="model_checking", design="3/C02",
        technique="stateless model checking of the real library: exhaustive interleavings of scripted child writes/closes/exit with the parent's read/poll/write loop, byte-exact reference stream",
        text="11 child scripts over stdout/stderr/stdin (interleaved writes, closes in either order, exit, read-to-EOF, echo, write to a closed descriptor) x "
             "payload sizes {0,1,7,cap-1,cap,cap+1,2cap+3} with the pipes set to one page, plus 65535/65537 bytes and one 2 MiB transfer on default pipes "
             "x stderr {pipe, merged into stdout, parent} x 8 parent loops (buffer 1/3/4096/70000, zero-size read first, poll-then-read, nonblocking+poll, "
             "drain) x stdin feeds {0,1,7,cap,cap+1, start-up input}, the stdin scripts also with the forked side of fork mode as the child; child steps released at every scheduling point (up to 3 deviations quick / 4 thorough "
             "for small payloads) and at every blocked read/write/poll. Position-dependent payload: every returned byte is compared with what the child "
             "wrote at that offset (kernel write order for the merged stream); EPIPE only once the child has closed every descriptor on the stream and all "
             "bytes were returned, then sticky without a system call; stdin bytes and EOF arrive; a blocked read after the child closed the stream is a violation; "
             "after a write was refused because the reader is gone, no later write is accepted or lands in a descriptor the caller opened since; the child's own pipe ends are blocking (writes after the reader has gone also with stdout to the parent / a caller's handle; the stdin scripts also with two or three standard descriptors of the parent closed)."),
    "C16": dict(
        cat="model_checking", design="3/C16",
        technique="stateless model checking of the real library: exhaustive interleavings x sink failure position x allocation-failure position x deadline expiry point, protocol oracle over the recorded sink calls",
        text="6 two-stream scripts x sizes {0,1,4096,9000} (thorough adds 4095/4097) x stderr {pipe, stdout, parent} x sinks {recording, failing with a "
             "negative (alternately -5 and the library's own closed-pipe value) / positive value at call k, string sink from NULL / pre-filled / shared by both streams} x realloc failure at every growth step x "
             "deadline {none, 1..3 ms} expiring before/between/after output, through reproc_drain and reproc_run_ex. Oracle: two initial (in, 0) calls, "
             "chunks equal the stream byte for byte, exactly one size-0 call per piped stream after its data, 0 iff both ended, first non-zero sink value "
             "returned with no later call, ETIMEDOUT only at the deadline and no call inside drain still blocked after it, string = previous content + bytes "
             "(intact after ENOMEM), run_ex = exit status (also after a positive sink result, which only stops the draining); drain on a handle restarted after a failed start with a deadline; drain called after the deadline with output waiting (no chunk after the deadline). The reproc++ templates reproc::drain / reproc::run with lambda sinks and sink::string are "
             "instantiated in a C++ harness (h_c16_cxx) over the same interposed C objects and judged by the same protocol clauses."),
    "C17": dict(
        cat="model_checking", design="3/C17",
        technique="stateless model checking of the real library with a blocked-interval log: every state of the pipe x operation x mode, livelock guard on busy waits",
        text="nonblocking on/off x pipe {empty, partly filled, full (one page), far side closed} x {read stdout, read stderr, write 1 / cap / 3cap bytes} x child "
             "{idle, one more step} and start-up input of {0,1,cap-1,cap,64Ki,64Ki+1,256Ki} bytes in both modes, followed by a read on stdout and stderr; far side closed with standard descriptors of the parent closed beforehand (closed-pipe error required). Nonblocking: no intercepted call is ever found "
             "blocked, results are a count / EPIPE / EWOULDBLOCK consistent with FIONREAD and the child's script position; input never blocks start and is "
             "either delivered completely (child reads all of it, sees EOF) or start fails with no child; blocking: every blocked interval is ended by a step "
             "of the child. A call that issues >20000 system calls without blocking or returning is reported as a busy wait."),
    "C10": dict(
        cat="model_checking", design="3/C10",
        technique="exhaustive enumeration of the redirect configuration space against the real library and a real exec; the child reports (st_dev, st_ino, st_rdev, access mode, FD_CLOEXEC) of its descriptors",
        text="All 6x6x7 explicit per-stream types + the four shorthands + all-default, each with the parent's descriptors 0/1/2 open or closed in all 8 "
             "combinations (2056 real execs); every HANDLE/FILE target being the parent's own stdout/stderr instead of a user object (176); standard "
             "streams closed with fclose() (28); descriptors closed first so that the user's FILEs/handles themselves sit on 0-2 (868); thorough adds nonblocking. For each stream the helper's hello must show exactly the requested object "
             "with the right direction (pipe inode matched to a descriptor the parent holds in the opposite direction; the parent's own stream or "
             "the null device when it has none; same open file as fd 1 for STDOUT; the supplied handle/FILE; the path's inode opened read/write-only), "
             "no FD_CLOEXEC left, the API answers EPIPE exactly for non-pipe streams, and the library never tries to close an object the caller lent it; HANDLE/FILE/PATH targets also named by their member alone (216). A clean failure of a valid combination is a violation."),
    "C11": dict(
        cat="model_checking", design="3/C11",
        technique="exhaustive enumeration of parent descriptor pools x limits x redirect kinds against the real library and a real exec; the child lists every descriptor it was started with",
        text="Descriptor limits {32, 64, 256} (thorough: 1024, 2048) x every subset of extra parent descriptors at {3, 4, 11, L-2, L-1} each absent / open / "
             "open+close-on-exec (243), plus an O_PATH directory handle, x redirects {default, pipes, discard, user handles, user FILEs without close-on-exec}, plus the whole C10 space: "
             "the started program sees 0, 1, 2 and exactly one more descriptor, the write end of a pipe whose read end the parent holds and that is none "
             "of the streams; the caller's own descriptors are still open afterwards; two starts with the limit raised in between, the second also in fork mode "
             "while the first child runs, also with stderr taken from standard descriptor 1 (the forked side lists its descriptors); the descriptor limit unreadable or infinite (and close_range answering ENOSYS, should the library use it) in the forked child with the caller's descriptors above 1024. Concurrent starts from threads are decided by the C20 harness."),
    "C13": dict(
        cat="model_checking", design="3/C13 + Appendix A",
        technique="exhaustive enumeration of the option space against the real validation code with an independent reference of the documented rules; resource-creating libc calls are intercepted, counted and refused, valid combinations are spawned for real",
        text="Quick: every setting {type 0..7, 8, -1} x {handle, file, path set/unset} of each stream alone and of every pair of streams over a reduced type "
             "set, x the 16 shorthand sets x 4 input forms x 5 fork/argv forms (2.3 M calls); thorough: the full 80^3 x 320 = 1.6e8 product. Each call is "
             "compared with ref_opts (a transcription of reproc.h and the property, not of options.c): must-reject => EINVAL and zero pipe/open/dup/fork "
             "calls; must-accept => not rejected; out-of-range type => negative, nothing leaked; the two documented-ambiguous zones accept either. Every "
             "distinct valid combination of the quick space (683) is then started with the real exec and its effective redirect per stream is confirmed "
             "with the C10 identity oracle; unknown redirect types are started with resources available too (negative result, no process created)."),
    "C03": dict(
        cat="model_checking", design="3/C03",
        technique="exhaustive enumeration of argument vectors / environment lists / path forms over a fixed byte alphabet against the real library (emulated exec for the bulk, real exec for a subset and every path case; sanitizer build for the path-length cases)",
        text="argv: every vector of 0..3 extra arguments over 13 one-byte strings {empty, a, space, tab, newline, double quote, quote, backslash, =, *, $, 0x80, 0xFF}, "
             "every two-byte string as a single argument (also with the real exec), a 4 KiB and a 128 KiB argument; environment: every list of 0..2 "
             "(thorough 0..3) extra entries over 8 shapes (empty value, empty name, no '=', duplicate key, UTF-8, spaces, quotes) x EXTEND/EMPTY x parent "
             "environments {empty, 1, 40 entries, duplicate key}; program named absolutely / ./dir/prog / dir/prog / ../x/prog / by bare name through PATH "
             "x working_directory {unset, relative, with spaces, absolute} x EXTEND/EMPTY, a decoy program of the same relative name under each child directory, "
             "and every single failure of getcwd/malloc/calloc/realloc during the start (a clean error or the right program); parent cwd lengths 100..20000 bytes around PATH_MAX under "
             "ASan/UBSan; argument and environment containers through reproc++ (h_c03_cxx, sanitizer build, entry lengths around allocator size classes; reproc::run(arguments, options) keeps working directory, environment and arguments). Oracle: the helper's argv/envp/getcwd byte for byte; the helper image really ran (resolved against the parent's cwd); beyond "
             "PATH_MAX a negative result, no child, no sanitizer report. Outside the bound: strings longer than 2 bytes beyond the two long cases."),
    "C14": dict(
        cat="model_checking", design="3/C14 + Appendix E",
        technique="explicit-state breadth-first search over API histories of the real library (each transition replays the history in a fresh process), states deduplicated by a canonical digest, reference life-cycle model as oracle, ASan+UBSan build",
        text="Alphabet of 30 operations: start {echo child, exit-at-once child, invalid options, failing program with a deadline, echo child with start-up input of size 0}, pid, write, write(NULL,0), "
             "read out/err/size 0/invalid stream/NULL buffer, close in/out/err/invalid, poll (a stale process-less source first, then the handle with mask 15, timeout 0) / poll(NULL) / zero sources, wait(0), "
             "wait(DEADLINE), terminate, kill, stop{wait 0}, stop{kill INF}, destroy + fresh handle, every API with a NULL handle, and the environment "
             "operations 'child performs its next step' and 'time passes'. Histories of length 4 (quick) / 6 (thorough), every newly found state expanded "
             "with every operation. Oracle: ref_life (state NOT_STARTED -> RUNNING -> EXITED only; what each call must return in each state, using the "
             "kernel for pending-byte truth), no sanitizer report, no signal death, nothing left after destroy. The digest keeps apart which operation closed "
             "each stream end and which one reaped the child, so that states reached through different code paths of the library are each expanded."),
    "C18": dict(
        cat="model_checking", design="3/C18", engine="h_c18",
        technique="bounded exhaustive enumeration of argument vectors and environment lists through the real Windows sources (compiled on Linux against stub Win32 functions, ASan/UBSan), round-trip checked with an independent implementation of the documented splitting rules",
        text="process.windows.c and utf.windows.c are compiled unchanged with -D_WIN32 against /verif/winstub/windows.h; the real process_start() runs and a "
             "recording CreateProcessW captures the command line and the environment block. Every vector of 1 argument of length <=6, 2 arguments <=3, 3 "
             "arguments <=2 (thorough: 8/4/3; 157 M vectors) over {a, space, tab, newline, vertical tab, double quote, backslash} including empty strings, for "
             "argv[0] with and without a space, plus 2-/3-/4-byte UTF-8 characters next to quotes and backslashes, must split back into exactly argv; 2412 "
             "environment cases (parent blocks of 0/1/3 entries x EXTEND/EMPTY x every list of 0..3 extra entries over 7 shapes incl. entries without '=', NULL vs empty list, invalid "
             "UTF-8 => clean failure) must give parent entries then extra entries, each NUL-terminated, one closing NUL; ASan proves the buffers are "
             "large enough. Outside the bound: longer strings (the property's 'longer ones at random' is sampling, a different family, not done).",
        note="Trusted base: gcc, ASan/UBSan, the stub Win32 layer (a strict UTF-8 -> UTF-16 converter, recording CreateProcessW) and the splitting oracle in "
             "/verif/winstub/h_c18.c. wchar_t is 4 bytes on this platform: each element holds one UTF-16 code unit. Real Windows is not involved."),
    "C19": dict(
        cat="model_checking", design="3/C19", engine="h_c19",
        technique="exhaustive enumeration of option-field menus, container contents, wrapper methods and C return values through the unmodified reproc++ sources linked against a recording fake of the C API (ASan/UBSan/LSan)",
        text="reproc++/src/reproc.cpp and the headers are compiled as they are; reproc_start & co. are a fake that records the options struct, argv and "
             "env arrays it receives and returns a scripted value. Enumerated: every options field varied alone over its full menu (pointers NULL/non-NULL, "
             "bools, all 8 redirect types x handle x file x path per stream, 4 stop actions x {INT_MIN,-2,-1,0,1,7,INT_MAX} per slot, deadline, input forms) on three "
             "bases chosen so that any swap of two fields shows, bool/enum pairs, start / fork / options::clone of each; argument containers "
             "(vector, list, array) and environment containers (vector of pairs, map) of 0..3 / 0..2 entries over a 9-string alphabet (empty, space, quote, "
             "backslash, '=', non-UTF-8); every wrapper method x {INT_MIN+1, -EINVAL, -EPIPE, -ETIMEDOUT, -ENOMEM, -EWOULDBLOCK, -1, 0, 1, 137, INT_MAX} with "
             "argument pass-through; enumerator and constant equality; one destroy per new; owned argument/environment arrays moved (element, options, vector of options) "
             "with the source destroyed before start.",
        note="Trusted base: g++, the fake C layer and comparisons in /verif/cxx/h_c19.cpp. Integer fields are checked on boundary menus, not on all values."),
    "C20": dict(
        cat="model_checking", design="3/C20, 2.6",
        technique="stateless model checking of the real library under a cooperative thread scheduler over the intercepted calls (preemption-bounded exhaustive schedules), plus a separate free-running ThreadSanitizer monitor of the same thread bodies",
        text="One runnable thread at a time; every intercepted call (including pipe/fcntl/fork) is a scheduling point; switching away from a thread that "
             "could continue costs one preemption, switches at blocked calls, joins and thread exits are free. (B) two threads (thorough: also three) "
             "each running new/start/write/close(IN)/read-to-EPIPE/wait/destroy on their own echo child: own bytes back, own status, the child's hello "
             "shows no descriptor of the other thread's pipes, and right after a thread's close(IN) its own child sees EOF with nobody else moving - all "
             "schedules with <=1 preemption (thorough <=2), emulated and real exec. (A) writer thread (3 + cap+1 bytes, close) and reader thread on one "
             "echo child, <=2 (3) preemptions: reader gets exactly the writer's bytes. (C) reproc_strerror from two threads with a switch between call "
             "and use. (H) a writer and a waiter on one child. (I) two threads starting children whose stderr is merged into stdout, or one of them with start-up input. (G) two threads running short life cycles with one close() of the library interrupted. (E) one thread whose starts fail after the fork beside another thread's whole life cycle: every waitpid/kill names the caller's own child. (D) two threads each draining its own echo child with reproc_drain, the sink yielding before it looks at its chunk: only its own bytes. "
             "Data races below call granularity are looked for by a free-running TSan build (60 / 400 runs of three concurrent life cycles, two concurrent drains of 64 KiB and a "
             "reader/writer pair on real cat/sh children): a monitor, not an enumeration."),
}

NOT_YET = "check not built yet (work in progress; see DESIGN.md section 7 for the build order)"


def main():
    props = [json.loads(l)["id"] for l in open(os.path.join(VERIF, "properties.jsonl"))]
    m = {
        "version": 1,
        "setup_cmd": "python3 /verif/run.py setup",
        "hooks": {
            "guard": "REPROC_VERIF",
            "enable": "no source hooks: objects are compiled from /repo's working tree with the baseline flags and every undefined libc "
                      "symbol X is renamed to vk_X with objcopy --redefine-syms=vk/syms.map (DESIGN.md 2.1); no source file tests the guard macro",
            "baseline_off_cmd": "cmake -S /repo -B /repo/_build -G Ninja && cmake --build /repo/_build && ctest --test-dir /repo/_build -j8 --timeout 900",
            "source_commits": [],
            "add_only": True,
        },
        "engines": [
            {"name": "hx", "path": "/verif/harness + /verif/vk + /verif/child",
             "serves_properties": sorted(CHECKS.keys()),
             "kind_free_text": "stateless model checker over the real reproc objects: libc interposition by symbol renaming, scripted step-locked "
                               "child, virtual clock, fault menus, deviation-bounded exhaustive DFS over choice sequences, one process per execution"},
        ],
        "checks": [],
        "not_applicable": [],
        "notes": "run.py check <id> rebuilds from /repo's working tree (content-hash cache under /verif/build). Evidence is rewritten by every run. "
                 "known_findings.json is read-only at run time.",
    }
    for p in props:
        if p in CHECKS:
            c = CHECKS[p]
            m["checks"].append({
                "property_id": p,
                "quick_cmd": "python3 /verif/run.py check %s --tier quick" % p,
                "thorough_cmd": "python3 /verif/run.py check %s --tier thorough" % p,
                "evidence_file": "/verif/evidence/%s.json" % p,
                "replay_cmd_template": "python3 /verif/run.py replay {path}",
                "engine": c.get("engine", "hx"),
                "level_claimed": {"category": c["cat"], "text": c["text"], "design_ref": c["design"]},
                "level_note": c.get("note", COMMON_NOTE),
                "technique": c["technique"],
            })
        else:
            m["not_applicable"].append({"property_id": p, "reason": NOT_YET})
    json.dump(m, open(os.path.join(VERIF, "MANIFEST.json"), "w"), indent=1)
    print("MANIFEST.json: %d checks, %d not_applicable" % (len(m["checks"]), len(m["not_applicable"])))


if __name__ == "__main__":
    main()
