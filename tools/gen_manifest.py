#!/usr/bin/env python3
"""Regenerates /verif/MANIFEST.json from the table below (kept next to the code so it stays current)."""
import json
import os
import sys

VERIF = os.path.dirname(os.path.dirname(os.path.abspath(__file__)))
sys.path.insert(0, VERIF)

COMMON_NOTE = ("Trusted base: Linux kernel + glibc answers for every call that is not an injected fault; gcc; objcopy symbol renaming; "
               "the harness code in /verif (vk wrappers, scripted helper, oracles). Scheduling granularity is the intercepted libc call; "
               "the scripted child never touches the exit descriptor. POSIX sources only.")

CHECKS = {
    "C01": dict(
        cat="model_checking", design="3/C01",
        technique="stateless model checking of the real library: exhaustive DFS over child-step schedules / blocked-call outcomes / fault answers under a controlled libc layer",
        text="Every exit code 0..255 and every terminating signal, every API history up to depth 3 (quick) / 4 (thorough) over "
             "{wait 0/2/INF, terminate, kill, three stop sequences}, every point at which the child's end can be released relative to the "
             "library's poll/kill/waitpid/close calls (all alternatives at blocked calls, up to 2 scheduling deviations elsewhere) and, in the "
             "thorough tier, every single fault at poll/waitpid/kill: status equals the ending the harness caused, is never returned while the "
             "child ledger says running, is stable with zero further system calls, exactly one successful reap, no zombie."),
}

NOT_YET = "check not built yet (work in progress; see DESIGN.md section 7 for the build order)"


def main():
    props = [json.loads(l)["id"] for l in open(os.path.join(VERIF, "properties.jsonl"))]
    m = {
        "version": 1,
        "setup_cmd": "python3 /verif/run.py setup",
        "hooks": {
            "guard": "REPROC_VERIF",
            "enable": "no source hooks: objects are compiled from /repo's working tree with the baseline flags and every undefined libc "
                      "symbol X is renamed to vk_X with objcopy --redefine-syms=vk/syms.map (DESIGN.md 2.1); no source file tests the guard macro",
            "baseline_off_cmd": "cmake -S /repo -B /repo/_build -G Ninja && cmake --build /repo/_build && ctest --test-dir /repo/_build -j8 --timeout 900",
            "source_commits": [],
            "add_only": True,
        },
        "engines": [
            {"name": "hx", "path": "/verif/harness + /verif/vk + /verif/child",
             "serves_properties": sorted(CHECKS.keys()),
             "kind_free_text": "stateless model checker over the real reproc objects: libc interposition by symbol renaming, scripted step-locked "
                               "child, virtual clock, fault menus, deviation-bounded exhaustive DFS over choice sequences, one process per execution"},
        ],
        "checks": [],
        "not_applicable": [],
        "notes": "run.py check <id> rebuilds from /repo's working tree (content-hash cache under /verif/build). Evidence is rewritten by every run. "
                 "known_findings.json is read-only at run time.",
    }
    for p in props:
        if p in CHECKS:
            c = CHECKS[p]
            m["checks"].append({
                "property_id": p,
                "quick_cmd": "python3 /verif/run.py check %s --tier quick" % p,
                "thorough_cmd": "python3 /verif/run.py check %s --tier thorough" % p,
                "evidence_file": "/verif/evidence/%s.json" % p,
                "replay_cmd_template": "python3 /verif/run.py replay {path}",
                "engine": c.get("engine", "hx"),
                "level_claimed": {"category": c["cat"], "text": c["text"], "design_ref": c["design"]},
                "level_note": c.get("note", COMMON_NOTE),
                "technique": c["technique"],
            })
        else:
            m["not_applicable"].append({"property_id": p, "reason": NOT_YET})
    json.dump(m, open(os.path.join(VERIF, "MANIFEST.json"), "w"), indent=1)
    print("MANIFEST.json: %d checks, %d not_applicable" % (len(m["checks"]), len(m["not_applicable"])))


if __name__ == "__main__":
    main()
