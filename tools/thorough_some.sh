#!/bin/sh
# thorough tier of the properties given as arguments, one line each
cd "$(dirname "$0")/.."
for p in "$@"; do
  s=$(date +%s)
  python3 run.py check $p --tier thorough > /tmp/thorough-$p.log 2>&1
  rc=$?
  e=$(date +%s)
  echo "$p rc=$rc wall=$((e-s))s $(grep -c '^VIOLATION' /tmp/thorough-$p.log) violations | $(grep "thorough:" /tmp/thorough-$p.log | tail -1 | cut -c1-200)"
done
