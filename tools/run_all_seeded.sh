#!/bin/sh
# runs every seeded change against the check of the property it breaks (plus extra properties given in seeded/<name>/also.txt)
cd /verif
for d in seeded/*/; do
  n=$(basename $d)
  [ -f $d/meta.json ] || continue
  extra=""
  [ -f $d/also.txt ] && extra=$(cat $d/also.txt)
  python3 tools/seeded.py run $n $(python3 -c "import json;print(json.load(open('$d/meta.json'))['property'])") $extra
done
python3 tools/seeded.py table
