#!/usr/bin/env python3
"""Seeded-change management.

  seeded.py import <wt> <name>       copy <wt>/mutant into /verif/seeded/<name>
  seeded.py verify <name>            scratch worktree: tests pass with the change, demo passes without and fails with it
  seeded.py run <name> [Cxx ...]     apply to /repo, run the quick checks (default: the property it breaks), undo; record who caught it
  seeded.py run-scratch <name> [Cxx ...]  the same against a scratch worktree of /repo (nothing in /repo or /verif/evidence is touched)
  seeded.py table                    print the detection table
"""
import json
import os
import shutil
import subprocess
import sys

VERIF = os.path.dirname(os.path.dirname(os.path.abspath(__file__)))
SEEDED = os.path.join(VERIF, "seeded")
REPO = "/repo"


def sh(cmd, cwd=None, timeout=1800):
    p = subprocess.run(cmd, shell=True, cwd=cwd, stdout=subprocess.PIPE, stderr=subprocess.STDOUT, timeout=timeout)
    return p.returncode, p.stdout.decode(errors="replace")


def meta_path(name):
    return os.path.join(SEEDED, name, "meta.json")


def load_meta(name):
    return json.load(open(meta_path(name)))


def save_meta(name, m):
    json.dump(m, open(meta_path(name), "w"), indent=1)


def do_import(wt, name):
    dst = os.path.join(SEEDED, name)
    shutil.rmtree(dst, ignore_errors=True)
    shutil.copytree(os.path.join(wt, "mutant"), dst, symlinks=False)
    # keep only sources
    for root, dirs, files in os.walk(dst):
        for f in files:
            full = os.path.join(root, f)
            if os.path.getsize(full) > 200000 or f.endswith((".o", ".a")):
                os.remove(full)
    print("imported", dst)


BUILD = ("cmake -S . -B _build -G Ninja -DREPROC_TEST=ON -DREPROC_MULTITHREADED=ON -DCMAKE_BUILD_TYPE=RelWithDebInfo "
         "-DCMAKE_C_FLAGS=-Wno-error %s >/dev/null && cmake --build _build >/dev/null")


def verify(name):
    m = load_meta(name)
    patch = os.path.join(SEEDED, name, "patch.diff")
    demo = os.path.join(SEEDED, name, "demo", "run.sh")
    wt = "/tmp/sv-" + name
    sh("git -C %s worktree remove --force %s" % (REPO, wt))
    shutil.rmtree(wt, ignore_errors=True)
    rc, out = sh("git -C %s worktree add --detach %s HEAD" % (REPO, wt))
    res = {}
    # some demos still name the worktree they were written in (/tmp/wt-<property>): point that name at this scratch tree
    os.environ["REPROC_SRC"] = wt
    made_alias = []
    for alias in ["/tmp/%s-%s" % (pre, m["property"]) for pre in ("wt", "w3", "w4", "w5", "w6", "w7", "w8")]:
        if not os.path.exists(alias):
            os.symlink(wt, alias)
            made_alias.append(alias)
    try:
        cxx = "-DREPROC++=ON" if "reproc++" in open(patch).read() else ""
        # the demos locate the sources relative to themselves: <tree>/mutant/demo/run.sh
        shutil.copytree(os.path.join(SEEDED, name), os.path.join(wt, "mutant"))
        demo = os.path.join(wt, "mutant", "demo", "run.sh")
        rc, out = sh(BUILD % cxx, cwd=wt)
        res["orig_builds"] = rc == 0
        rc, out = sh("sh %s %s/_build" % (demo, wt), cwd=os.path.dirname(demo))
        res["demo_passes_without_change"] = rc == 0
        res["demo_orig_tail"] = out[-400:]
        rc, out = sh("git apply %s" % patch, cwd=wt)
        res["patch_applies"] = rc == 0
        if rc != 0:
            res["apply_msg"] = out[-400:]
        rc, out = sh(BUILD % cxx, cwd=wt)
        res["mutant_builds"] = rc == 0
        ok = True
        for i in range(2):
            rc, out = sh("ctest --test-dir _build -j8 --timeout 900", cwd=wt)
            ok = ok and rc == 0
        res["tests_pass_with_change"] = ok
        rc, out = sh("sh %s %s/_build" % (demo, wt), cwd=os.path.dirname(demo))
        res["demo_fails_with_change"] = rc != 0
        res["demo_mutant_tail"] = out[-400:]
    finally:
        sh("git -C %s worktree remove --force %s" % (REPO, wt))
        shutil.rmtree(wt, ignore_errors=True)
        for alias in made_alias:
            os.unlink(alias)
    m["verified_by_me"] = res
    m["verified_ok"] = all(res.get(k) for k in ("patch_applies", "mutant_builds", "tests_pass_with_change", "demo_passes_without_change", "demo_fails_with_change"))
    save_meta(name, m)
    print(name, "verified_ok =", m["verified_ok"], {k: v for k, v in res.items() if not k.endswith("tail")})
    return m["verified_ok"]


def run_scratch(name, props):
    """Same as run(), but the change is applied to a scratch worktree of /repo and the checks are pointed at it (VERIF_REPO), with evidence and
    replays going to a scratch directory: /repo and /verif/evidence are never touched, so several of these can run side by side."""
    m = load_meta(name)
    if not props:
        props = [m["property"]]
    patch = os.path.join(SEEDED, name, "patch.diff")
    wt = "/tmp/sr-" + name
    out = "/tmp/sr-out-" + name
    bld = "/tmp/sr-build-" + name
    sh("git -C %s worktree remove --force %s" % (REPO, wt))
    shutil.rmtree(wt, ignore_errors=True)
    shutil.rmtree(out, ignore_errors=True)
    os.makedirs(out)
    rc, o = sh("git -C %s worktree add --detach %s HEAD" % (REPO, wt))
    det = {}
    try:
        rc, o = sh("git apply %s" % patch, cwd=wt)
        if rc != 0:
            print("patch does not apply:", o)
            return 2
        for p in props:
            rc, o = sh("VERIF_REPO=%s VERIF_OUT=%s VERIF_BUILD=%s VERIF_JOBS=%s python3 %s/run.py check %s --tier %s" % (wt, out, bld, os.environ.get("SEEDED_JOBS", "4"), VERIF, p, os.environ.get("SEEDED_TIER", "quick")))
            viol = [l for l in o.split("\n") if l.startswith("VIOLATION")]
            keys = [l.strip() for l in o.split("\n") if l.strip().startswith("key:")]
            det[p] = {"exit": rc, "violations": len(viol), "keys": keys[:6]}
            print("%s on %s: exit=%d violations=%d %s" % (p, name, rc, len(viol), keys[:3]))
    finally:
        sh("git -C %s worktree remove --force %s" % (REPO, wt))
        shutil.rmtree(wt, ignore_errors=True)
        shutil.rmtree(out, ignore_errors=True)
        shutil.rmtree(bld, ignore_errors=True)
    m = load_meta(name)
    m.setdefault("detection", {}).update(det)
    save_meta(name, m)
    return 0


def run(name, props):
    m = load_meta(name)
    if not props:
        props = [m["property"]]
    patch = os.path.join(SEEDED, name, "patch.diff")
    rc, out = sh("git -C %s status --porcelain --untracked-files=no" % REPO)
    if out.strip():
        print("refusing: /repo has local changes")
        return 2
    rc, out = sh("git -C %s apply %s" % (REPO, patch))
    if rc != 0:
        print("patch does not apply to /repo:", out)
        return 2
    det = m.setdefault("detection", {})
    try:
        for p in props:
            rc, out = sh("python3 %s/run.py check %s --tier %s" % (VERIF, p, os.environ.get("SEEDED_TIER", "quick")))
            viol = [l for l in out.split("\n") if l.startswith("VIOLATION")]
            keys = [l.strip() for l in out.split("\n") if l.strip().startswith("key:")]
            det[p] = {"exit": rc, "violations": len(viol), "keys": keys[:6]}
            print("%s on %s: exit=%d violations=%d %s" % (p, name, rc, len(viol), keys[:3]))
    finally:
        sh("git -C %s checkout -- ." % REPO)
        # evidence and replays written while the tree was mutated are not evidence of anything
        sh("git -C %s checkout -- evidence" % VERIF)
    save_meta(name, m)
    return 0


def table():
    rows = []
    for name in sorted(os.listdir(SEEDED)):
        if not os.path.exists(meta_path(name)):
            continue
        m = load_meta(name)
        det = m.get("detection", {})
        caught = [p for p, d in det.items() if d.get("violations", 0) > 0]
        missed = [p for p, d in det.items() if d.get("violations", 0) == 0]
        rows.append("| %s | %s | %s | %s | %s |" % (name, m.get("property"), "yes" if m.get("verified_ok") else "NO", ", ".join(caught) or "-", ", ".join(missed) or "-"))
    print("| seeded change | breaks | verified | caught by | run but silent |\n|---|---|---|---|---|")
    print("\n".join(rows))


if __name__ == "__main__":
    c = sys.argv[1]
    if c == "import":
        do_import(sys.argv[2], sys.argv[3])
    elif c == "verify":
        sys.exit(0 if verify(sys.argv[2]) else 1)
    elif c == "run":
        sys.exit(run(sys.argv[2], sys.argv[3:]))
    elif c == "run-scratch":
        sys.exit(run_scratch(sys.argv[2], sys.argv[3:]))
    elif c == "table":
        table()
