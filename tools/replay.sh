#!/bin/sh
# tools/replay.sh <harness> <tier> <cfg> [choices]  -- ad-hoc replay against the newest plain build
B=$(ls -td /verif/build/*-${VARIANT:-plain} | head -1)
SC=/dev/shm/replay-$$; mkdir -p $SC/bin; cp $B/vchild $SC/bin/
HX_SCRATCH=$SC $B/hx replay "$@"; rc=$?
rm -rf $SC; exit $rc
