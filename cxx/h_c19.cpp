// h_c19.cpp — C19: reproc++ is a faithful mapping of the C API. reproc++/src/reproc.cpp is compiled unchanged and
// linked against a recording fake of the C API (below); every options field, container form, wrapper method and C
// return value of the stated menus is enumerated and compared field by field. DESIGN.md 3/C19.
#include <reproc++/reproc.hpp>
#include <reproc/reproc.h>

#include <array>
#include <cerrno>
#include <cstdarg>
#include <climits>
#include <cstdio>
#include <cstring>
#include <list>
#include <map>
#include <memory>
#include <string>
#include <vector>

// ------------------------------------------------------------------ the fake C layer
extern "C" {
const int REPROC_EINVAL = -EINVAL;
const int REPROC_EPIPE = -EPIPE;
const int REPROC_ETIMEDOUT = -ETIMEDOUT;
const int REPROC_ENOMEM = -ENOMEM;
const int REPROC_EWOULDBLOCK = -EWOULDBLOCK;
const int REPROC_SIGKILL = 128 + 9;
const int REPROC_SIGTERM = 128 + 15;
const int REPROC_INFINITE = -1;
const int REPROC_DEADLINE = -2;
}

struct reproc_t {
  int id;
};

static struct {
  int calls;
  reproc_t *process;
  bool argv_null;
  std::vector<std::string> argv;
  bool argv_terminated;
  reproc_options options;
  bool env_null;
  std::vector<std::string> env;
  // other calls
  REPROC_STREAM stream;
  const uint8_t *cbuf;
  uint8_t *buf;
  size_t size;
  int timeout;
  reproc_stop_actions stop;
  std::vector<reproc_event_source> sources;
  const char *last;
} rec;
static int scripted = 0;
static int new_count, destroy_count;
static int poll_events[4] = { 0, 0, 0, 0 };

extern "C" {
reproc_t *reproc_new(void)
{
  new_count++;
  reproc_t *p = new reproc_t;
  p->id = new_count;
  return p;
}
reproc_t *reproc_destroy(reproc_t *p)
{
  if (p) destroy_count++;
  delete p;
  return nullptr;
}
int reproc_start(reproc_t *process, const char *const *argv, reproc_options options)
{
  rec.calls++;
  rec.last = "start";
  rec.process = process;
  rec.options = options;
  rec.argv.clear();
  rec.argv_null = argv == nullptr;
  for (int i = 0; argv && argv[i]; i++) rec.argv.push_back(argv[i]);
  rec.env.clear();
  rec.env_null = options.env.extra == nullptr;
  for (int i = 0; options.env.extra && options.env.extra[i]; i++) rec.env.push_back(options.env.extra[i]);
  return scripted;
}
int reproc_pid(reproc_t *p) { rec.calls++; rec.last = "pid"; rec.process = p; return scripted; }
int reproc_poll(reproc_event_source *s, size_t n, int timeout)
{
  rec.calls++;
  rec.last = "poll";
  rec.timeout = timeout;
  rec.sources.assign(s, s + n);
  for (size_t i = 0; i < n && i < 4; i++) s[i].events = poll_events[i];
  return scripted;
}
int reproc_read(reproc_t *p, REPROC_STREAM stream, uint8_t *buffer, size_t size)
{ rec.calls++; rec.last = "read"; rec.process = p; rec.stream = stream; rec.buf = buffer; rec.size = size; return scripted; }
int reproc_write(reproc_t *p, const uint8_t *buffer, size_t size)
{ rec.calls++; rec.last = "write"; rec.process = p; rec.cbuf = buffer; rec.size = size; return scripted; }
int reproc_close(reproc_t *p, REPROC_STREAM stream) { rec.calls++; rec.last = "close"; rec.process = p; rec.stream = stream; return scripted; }
int reproc_wait(reproc_t *p, int timeout) { rec.calls++; rec.last = "wait"; rec.process = p; rec.timeout = timeout; return scripted; }
int reproc_terminate(reproc_t *p) { rec.calls++; rec.last = "terminate"; rec.process = p; return scripted; }
int reproc_kill(reproc_t *p) { rec.calls++; rec.last = "kill"; rec.process = p; return scripted; }
int reproc_stop(reproc_t *p, reproc_stop_actions stop) { rec.calls++; rec.last = "stop"; rec.process = p; rec.stop = stop; return scripted; }
const char *reproc_strerror(int) { return "fake"; }
}

// ------------------------------------------------------------------ bookkeeping
static long checks, violations;
static char first[6][400];
static int nfirst;
static long hits_field[32];

static std::map<std::string, long> per_clause;

static void fail(const char *clause, const char *fmt, ...)
{
  violations++;
  if (per_clause[clause]++ == 0 && nfirst < 6) {
    char m[300];
    va_list ap;
    va_start(ap, fmt);
    vsnprintf(m, sizeof m, fmt, ap);
    va_end(ap);
    for (char *c = m; *c; c++) if (*c == '"' || *c == '\\') *c = '\'';
    snprintf(first[nfirst++], 400, "{\"clause\":\"%s\",\"msg\":\"%s\"}", clause, m);
  }
}
#define CHECK(cond, clause, ...) do { checks++; if (!(cond)) fail(clause, __VA_ARGS__); } while (0)

static const int int_menu[] = { INT_MIN, -2, -1, 0, 1, 7, INT_MAX };
static const int NINT = 7;

static void compare_options(const reproc::options &o, bool fork_expected, const char *ctx)
{
  const reproc_options &c = rec.options;
  CHECK(c.working_directory == o.working_directory, "options-working_directory", "%s: working_directory differs", ctx);
  CHECK((int) c.env.behavior == (int) o.env.behavior, "options-env-behavior", "%s: env.behavior %d vs %d", ctx, (int) c.env.behavior, (int) o.env.behavior);
  CHECK(c.env.extra == o.env.extra.data(), "options-env-extra", "%s: env.extra pointer differs", ctx);
  const reproc_redirect *cr[3] = { &c.redirect.in, &c.redirect.out, &c.redirect.err };
  const reproc::redirect *orr[3] = { &o.redirect.in, &o.redirect.out, &o.redirect.err };
  static const char *const sn[3] = { "in", "out", "err" };
  for (int i = 0; i < 3; i++) {
    CHECK((int) cr[i]->type == (int) orr[i]->type, "options-redirect-type", "%s: redirect.%s.type %d vs %d", ctx, sn[i], (int) cr[i]->type, (int) orr[i]->type);
    CHECK(cr[i]->handle == orr[i]->handle, "options-redirect-handle", "%s: redirect.%s.handle %d vs %d", ctx, sn[i], (int) cr[i]->handle, (int) orr[i]->handle);
    CHECK(cr[i]->file == orr[i]->file, "options-redirect-file", "%s: redirect.%s.file differs", ctx, sn[i]);
    CHECK(cr[i]->path == orr[i]->path, "options-redirect-path", "%s: redirect.%s.path differs", ctx, sn[i]);
  }
  CHECK(c.redirect.parent == o.redirect.parent, "options-redirect-parent", "%s: redirect.parent %d vs %d", ctx, c.redirect.parent, o.redirect.parent);
  CHECK(c.redirect.discard == o.redirect.discard, "options-redirect-discard", "%s: redirect.discard %d vs %d", ctx, c.redirect.discard, o.redirect.discard);
  CHECK(c.redirect.file == o.redirect.file, "options-redirect-shfile", "%s: redirect.file differs", ctx);
  CHECK(c.redirect.path == o.redirect.path, "options-redirect-shpath", "%s: redirect.path differs", ctx);
  const reproc_stop_action *cs[3] = { &c.stop.first, &c.stop.second, &c.stop.third };
  const reproc::stop_action *os[3] = { &o.stop.first, &o.stop.second, &o.stop.third };
  for (int i = 0; i < 3; i++) {
    CHECK((int) cs[i]->action == (int) os[i]->action, "options-stop-action", "%s: stop action %d is %d vs %d", ctx, i, (int) cs[i]->action, (int) os[i]->action);
    CHECK(cs[i]->timeout == os[i]->timeout.count(), "options-stop-timeout", "%s: stop timeout %d is %d vs %d", ctx, i, cs[i]->timeout, os[i]->timeout.count());
  }
  CHECK(c.deadline == o.deadline.count(), "options-deadline", "%s: deadline %d vs %d", ctx, c.deadline, o.deadline.count());
  CHECK(c.input.data == o.input.data(), "options-input-data", "%s: input.data differs", ctx);
  CHECK(c.input.size == o.input.size(), "options-input-size", "%s: input.size %zu vs %zu", ctx, c.input.size, o.input.size());
  CHECK(c.nonblocking == o.nonblocking, "options-nonblocking", "%s: nonblocking reaches the C layer as %d, the C++ option says %d", ctx, c.nonblocking, o.nonblocking);
  CHECK(c.fork == fork_expected, "options-fork", "%s: fork reaches the C layer as %d, expected %d", ctx, c.fork, fork_expected);
}

static reproc::options base_options(int variant)
{
  // a base in which every field is set to something non-default and distinct, so that swaps show
  static const char *extra[] = { "K=V", nullptr };
  static const uint8_t data[5] = { 1, 2, 3, 4, 5 };
  reproc::options o;
  if (variant == 0) return o;
  o.env.behavior = reproc::env::empty;
  o.env.extra = reproc::env(extra);
  o.working_directory = "/somewhere";
  o.redirect.in = { reproc::redirect::handle_, 11, nullptr, nullptr };
  o.redirect.out = { reproc::redirect::file_, 0, stdout, nullptr };
  o.redirect.err = { reproc::redirect::path_, 0, nullptr, "err.txt" };
  o.redirect.parent = true;
  o.redirect.discard = false;
  o.redirect.file = stderr;
  o.redirect.path = "both.txt";
  o.stop = { { reproc::stop::wait, reproc::milliseconds(10) }, { reproc::stop::terminate, reproc::milliseconds(20) }, { reproc::stop::kill, reproc::milliseconds(30) } };
  o.timeout = reproc::milliseconds(99);
  o.deadline = reproc::milliseconds(1234);
  o.input = reproc::input(data, 5);
  o.nonblocking = variant == 1;
  return o;
}

static void run_start(const reproc::options &o, const char *ctx)
{
  const char *argv[] = { "prog", "x", nullptr };
  {
    // a null argument vector given to start() is the C layer's to judge: it arrives as it is, and fork stays off
    reproc::process p;
    scripted = 1;
    p.start(reproc::arguments((const char *const *) nullptr), o);
    char c2[100];
    snprintf(c2, sizeof c2, "%s/start(null argv)", ctx);
    CHECK(!strcmp(rec.last, "start") && rec.argv_null, "arguments-passthrough", "%s: a null argv did not reach the C layer as NULL", c2);
    CHECK(rec.options.fork == false, "options-fork", "%s: start() with a null argv reached the C layer with fork=%d", c2, rec.options.fork);
  }
  {
    reproc::process p;
    scripted = 1;
    p.start(argv, o);
    CHECK(!strcmp(rec.last, "start"), "start-reaches-c", "%s: start did not call reproc_start", ctx);
    compare_options(o, false, ctx);
    CHECK(rec.argv.size() == 2 && rec.argv[0] == "prog" && rec.argv[1] == "x", "arguments-passthrough", "%s: argv changed", ctx);
  }
  {
    reproc::process p;
    scripted = 1;
    p.fork(o);
    char c2[100];
    snprintf(c2, sizeof c2, "%s/fork", ctx);
    compare_options(o, true, c2);
    CHECK(rec.argv_null, "fork-argv-null", "%s: fork passed a non-NULL argv", ctx);
  }
  {
    // copies of options preserve every field
    reproc::options cl = reproc::options::clone(o);
    reproc::process p;
    scripted = 1;
    p.start(argv, cl);
    char c2[100];
    snprintf(c2, sizeof c2, "%s/clone", ctx);
    // compare against the ORIGINAL: the clone must carry the same values
    compare_options(o, false, c2);
  }
}

static void options_space(void)
{
  static const char *extra[] = { "A=1", "B=2", nullptr };
  static const uint8_t data[3] = { 9, 8, 7 };
  for (int base = 0; base < 3; base++) {
    char ctx[100];
    // every field varied alone over its menu, on each base
    for (int beh = 0; beh < 2; beh++) { reproc::options o = base_options(base); o.env.behavior = beh ? reproc::env::empty : reproc::env::extend; snprintf(ctx, sizeof ctx, "base%d env.behavior=%d", base, beh); run_start(o, ctx); hits_field[0]++; }
    for (int e = 0; e < 2; e++) { reproc::options o = base_options(base); o.env.extra = e ? reproc::env(extra) : reproc::env(); snprintf(ctx, sizeof ctx, "base%d env.extra=%d", base, e); run_start(o, ctx); hits_field[1]++; }
    for (int w = 0; w < 2; w++) { reproc::options o = base_options(base); o.working_directory = w ? "/w" : nullptr; snprintf(ctx, sizeof ctx, "base%d wd=%d", base, w); run_start(o, ctx); hits_field[2]++; }
    for (int s = 0; s < 3; s++)
      for (int t = 0; t < 8; t++)
        for (int h = 0; h < 2; h++)
          for (int f = 0; f < 2; f++)
            for (int pth = 0; pth < 2; pth++) {
              reproc::options o = base_options(base);
              reproc::redirect r = { (enum reproc::redirect::type) t, h ? 5 + s : 0, f ? stdin : nullptr, pth ? "p" : nullptr };
              (s == 0 ? o.redirect.in : s == 1 ? o.redirect.out : o.redirect.err) = r;
              snprintf(ctx, sizeof ctx, "base%d redirect.%d=(%d,%d,%d,%d)", base, s, t, h, f, pth);
              run_start(o, ctx);
              hits_field[3]++;
            }
    for (int m = 0; m < 16; m++) {
      reproc::options o = base_options(base);
      o.redirect.parent = m & 1; o.redirect.discard = m & 2; o.redirect.file = (m & 4) ? stdout : nullptr; o.redirect.path = (m & 8) ? "sp" : nullptr;
      snprintf(ctx, sizeof ctx, "base%d shorthands=%d", base, m);
      run_start(o, ctx);
      hits_field[4]++;
    }
    for (int slot = 0; slot < 3; slot++)
      for (int a = 0; a < 4; a++)
        for (int ti = 0; ti < NINT; ti++) {
          reproc::options o = base_options(base);
          reproc::stop_action sa = { (reproc::stop) a, reproc::milliseconds(int_menu[ti]) };
          (slot == 0 ? o.stop.first : slot == 1 ? o.stop.second : o.stop.third) = sa;
          snprintf(ctx, sizeof ctx, "base%d stop.%d=(%d,%d)", base, slot, a, int_menu[ti]);
          run_start(o, ctx);
          hits_field[5]++;
        }
    for (int ti = 0; ti < NINT; ti++) { reproc::options o = base_options(base); o.deadline = reproc::milliseconds(int_menu[ti]); snprintf(ctx, sizeof ctx, "base%d deadline=%d", base, int_menu[ti]); run_start(o, ctx); hits_field[6]++; }
    for (int i = 0; i < 3; i++) { reproc::options o = base_options(base); o.input = i == 0 ? reproc::input() : i == 1 ? reproc::input(data, 3) : reproc::input(data, 0); snprintf(ctx, sizeof ctx, "base%d input=%d", base, i); run_start(o, ctx); hits_field[7]++; }
    for (int nb = 0; nb < 2; nb++) { reproc::options o = base_options(base); o.nonblocking = nb; snprintf(ctx, sizeof ctx, "base%d nonblocking=%d", base, nb); run_start(o, ctx); hits_field[8]++; }
    // pairs over small menus: nonblocking x every bool/enum neighbour
    for (int nb = 0; nb < 2; nb++)
      for (int par = 0; par < 2; par++)
        for (int dis = 0; dis < 2; dis++)
          for (int beh = 0; beh < 2; beh++)
            for (int dl = 0; dl < 2; dl++) {
              reproc::options o = base_options(base);
              o.nonblocking = nb; o.redirect.parent = par; o.redirect.discard = dis; o.env.behavior = beh ? reproc::env::empty : reproc::env::extend; o.deadline = reproc::milliseconds(dl ? 5 : 0);
              snprintf(ctx, sizeof ctx, "base%d pairs=%d%d%d%d%d", base, nb, par, dis, beh, dl);
              run_start(o, ctx);
              hits_field[9]++;
            }
  }
  // string literal input includes the terminating NUL (documented)
  {
    reproc::options o;
    o.input = reproc::input("abc");
    CHECK(o.input.size() == 4, "input-literal", "a string literal input has size %zu", o.input.size());
  }
}

// ------------------------------------------------------------------ containers
static const char *const alpha[] = { "", "a", " ", "\"", "\\", "=", "\x80\xff", "two words", "x=y" };
static const int NALPHA = 9;

template <typename C> static void check_args_container(const C &c, const std::vector<std::string> &want, const char *ctx)
{
  reproc::process p;
  reproc::options o;
  scripted = 1;
  p.start(reproc::arguments(c), o);
  CHECK(!rec.argv_null && rec.argv == want, "arguments-container", "%s: the C layer received %zu arguments, %zu passed (or contents differ)", ctx, rec.argv.size(), want.size());
  {
    std::unique_ptr<reproc::arguments> a1(new reproc::arguments(c));
    reproc::arguments a2(std::move(*a1));
    a1.reset();
    reproc::process p2;
    scripted = 1;
    p2.start(a2, o);
    CHECK(!rec.argv_null && rec.argv == want, "arguments-container-moved", "%s, moved: the C layer received %zu arguments, %zu passed (or contents differ)", ctx, rec.argv.size(), want.size());
  }
}

static void containers_space(void)
{
  // argument containers of sizes 0..3
  for (int n = 0; n <= 3; n++) {
    long total = 1;
    for (int i = 0; i < n; i++) total *= NALPHA;
    for (long idx = 0; idx < total; idx++) {
      std::vector<std::string> v;
      long k = idx;
      for (int i = 0; i < n; i++) { v.push_back(alpha[k % NALPHA]); k /= NALPHA; }
      check_args_container(v, v, "vector");
      std::list<std::string> l(v.begin(), v.end());
      check_args_container(l, v, "list");
      if (n == 2) { std::array<std::string, 2> a = { { v[0], v[1] } }; check_args_container(a, v, "array"); }
      hits_field[10]++;
    }
  }
  // environments: vector of pairs (order kept) and map (sorted by key)
  for (int n = 0; n <= 2; n++) {
    long total = 1;
    for (int i = 0; i < 2 * n; i++) total *= NALPHA;
    for (long idx = 0; idx < total; idx++) {
      std::vector<std::pair<std::string, std::string>> vp;
      long k = idx;
      for (int i = 0; i < n; i++) { std::string a = alpha[k % NALPHA]; k /= NALPHA; std::string b = alpha[k % NALPHA]; k /= NALPHA; vp.push_back({ a, b }); }
      std::vector<std::string> want;
      for (auto &e : vp) want.push_back(e.first + "=" + e.second);
      {
        reproc::process p;
        reproc::options o;
        o.env.extra = reproc::env(vp);
        const char *argv[] = { "prog", nullptr };
        scripted = 1;
        p.start(argv, o);
        CHECK(!rec.env_null && rec.env == want, "env-container", "vector of pairs: %zu entries reach the C layer, %zu given (or contents differ)", rec.env.size(), want.size());
      }
      {
        std::map<std::string, std::string> m(vp.begin(), vp.end());
        std::vector<std::string> wm;
        for (auto &e : m) wm.push_back(e.first + "=" + e.second);
        reproc::process p;
        reproc::options o;
        o.env.extra = reproc::env(m);
        const char *argv[] = { "prog", nullptr };
        scripted = 1;
        p.start(argv, o);
        CHECK(!rec.env_null && rec.env == wm, "env-container", "map: %zu entries reach the C layer, %zu given", rec.env.size(), wm.size());
      }
      {
        // owned arrays travel by move (options are not copyable): after the source is gone the destination still holds exactly the entries,
        // and they are released exactly once (the sanitizer watches)
        std::unique_ptr<reproc::env> e1(new reproc::env(vp));
        reproc::env e2(std::move(*e1));
        e1.reset();
        std::unique_ptr<reproc::options> o1(new reproc::options());
        o1->env.extra = std::move(e2);
        reproc::options o2(std::move(*o1));
        o1.reset();
        std::vector<reproc::options> queue;
        queue.push_back(std::move(o2));
        queue.push_back(reproc::options());
        reproc::process p;
        const char *argv[] = { "prog", nullptr };
        scripted = 1;
        p.start(argv, queue[0]);
        CHECK(!rec.env_null && rec.env == want, "env-container-moved", "moved environment: %zu entries reach the C layer, %zu given (or contents differ)", rec.env.size(), want.size());
      }
      hits_field[11]++;
    }
  }
}

// ------------------------------------------------------------------ wrapper methods x C return values
static const int ret_menu[] = { INT_MIN + 1, -EINVAL, -EPIPE, -ETIMEDOUT, -ENOMEM, -EWOULDBLOCK, -1, 0, 1, 137, INT_MAX };
static const int NRET = 11;

static void check_ec(const std::error_code &ec, int r, const char *method)
{
  if (r >= 0) { CHECK(!ec, "error-code-success", "%s: C result %d gives error %d", method, r, ec.value()); return; }
  if (r == -EPIPE) { CHECK(ec == std::errc::broken_pipe && ec.value() == EPIPE, "error-code-epipe", "%s: EPIPE maps to %d/%s", method, ec.value(), ec.category().name()); return; }
  CHECK(ec.value() == -r && ec.category() == std::system_category(), "error-code-value", "%s: C result %d maps to %d in %s", method, r, ec.value(), ec.category().name());
}

static void methods_space(void)
{
  uint8_t buffer[16];
  for (int ri = 0; ri < NRET; ri++) {
    int r = ret_menu[ri];
    scripted = r;
    reproc::process p;
    const char *argv[] = { "prog", nullptr };
    reproc::options o;
    std::error_code ec = p.start(argv, o);
    check_ec(ec, r, "start");
    { auto x = p.fork(o); check_ec(x.second, r, "fork"); CHECK(x.first == (r == 0), "fork-first", "fork: C result %d gives first=%d", r, x.first); }
    { auto x = p.pid(); check_ec(x.second, r, "pid"); CHECK(x.first == r, "result-value", "pid: %d vs %d", x.first, r); CHECK(!strcmp(rec.last, "pid"), "method-reaches-c", "pid"); }
    for (int s = 0; s < 3; s++) {
      for (size_t size : { (size_t) 0, (size_t) 1, sizeof buffer }) {
        auto x = p.read((reproc::stream) s, buffer, size);
        check_ec(x.second, r, "read");
        CHECK(x.first == (size_t) r, "result-value", "read: %zu vs %d", x.first, r);
        CHECK(!strcmp(rec.last, "read") && (int) rec.stream == s && rec.buf == buffer && rec.size == size, "method-arguments", "read: stream/buffer/size not passed through");
      }
      std::error_code e2 = p.close((reproc::stream) s);
      check_ec(e2, r, "close");
      CHECK(!strcmp(rec.last, "close") && (int) rec.stream == s, "method-arguments", "close: stream %d reached the C layer as %d", s, (int) rec.stream);
    }
    for (size_t size : { (size_t) 0, (size_t) 3 }) {
      auto x = p.write(buffer, size);
      check_ec(x.second, r, "write");
      CHECK(x.first == (size_t) r, "result-value", "write: %zu vs %d", x.first, r);
      CHECK(!strcmp(rec.last, "write") && rec.cbuf == buffer && rec.size == size, "method-arguments", "write: buffer/size not passed through");
    }
    for (int ti = 0; ti < NINT; ti++) {
      auto x = p.wait(reproc::milliseconds(int_menu[ti]));
      check_ec(x.second, r, "wait");
      CHECK(x.first == r, "result-value", "wait: %d vs %d", x.first, r);
      CHECK(!strcmp(rec.last, "wait") && rec.timeout == int_menu[ti], "method-arguments", "wait: timeout %d reached the C layer as %d", int_menu[ti], rec.timeout);
    }
    check_ec(p.terminate(), r, "terminate");
    CHECK(!strcmp(rec.last, "terminate"), "method-reaches-c", "terminate");
    check_ec(p.kill(), r, "kill");
    CHECK(!strcmp(rec.last, "kill"), "method-reaches-c", "kill");
    for (int a = 0; a < 4; a++)
      for (int ti = 0; ti < NINT; ti++) {
        reproc::stop_actions sa = { { (reproc::stop) a, reproc::milliseconds(int_menu[ti]) },
                                    { (reproc::stop) ((a + 1) % 4), reproc::milliseconds(int_menu[(ti + 1) % NINT]) },
                                    { (reproc::stop) ((a + 2) % 4), reproc::milliseconds(int_menu[(ti + 2) % NINT]) } };
        auto x = p.stop(sa);
        check_ec(x.second, r, "stop");
        CHECK(x.first == r, "result-value", "stop: %d vs %d", x.first, r);
        bool same = (int) rec.stop.first.action == a && rec.stop.first.timeout == int_menu[ti] && (int) rec.stop.second.action == (a + 1) % 4 &&
                    rec.stop.second.timeout == int_menu[(ti + 1) % NINT] && (int) rec.stop.third.action == (a + 2) % 4 && rec.stop.third.timeout == int_menu[(ti + 2) % NINT];
        CHECK(same, "stop-actions", "stop: the actions reaching the C layer differ (third timeout %d, given %d)", rec.stop.third.timeout, int_menu[(ti + 2) % NINT]);
      }
    // poll: the member and the free function
    // (what the C layer reports is its business: the deadline event comes without having been asked for)
    for (int interests = 0; interests < 32; interests += 5) {
      static const int evs[7] = { 0, 1, 2, 8, 16, 18, 31 };
      for (int ei = 0; ei < 7; ei++) {
        poll_events[0] = evs[ei];
        auto x = p.poll(interests, reproc::milliseconds(7));
        check_ec(x.second, r, "process::poll");
        if (r >= 0) CHECK(x.first == evs[ei], "poll-events", "process::poll(interests %d): the C layer reported events %d, the wrapper returned %d", interests, evs[ei], x.first);
        CHECK(rec.sources.size() == 1 && rec.sources[0].interests == interests && rec.timeout == 7, "method-arguments", "process::poll: interests/timeout not passed through");
      }
    }
    {
      reproc::event::source src[2] = { { reproc::process(), 3, 0x55 }, { reproc::process(), 9, 0x55 } };
      poll_events[0] = 2;
      poll_events[1] = 24;
      std::error_code e3 = reproc::poll(src, 2, reproc::milliseconds(int_menu[ri % NINT]));
      check_ec(e3, r, "poll");
      CHECK(rec.sources.size() == 2 && rec.sources[0].interests == 3 && rec.sources[1].interests == 9 && rec.sources[0].process != rec.sources[1].process &&
                rec.sources[0].process != nullptr && rec.timeout == int_menu[ri % NINT],
            "method-arguments", "poll: sources/timeout not passed through");
      if (r >= 0) CHECK(src[0].events == 2 && src[1].events == 24, "poll-events", "poll: events %d,%d vs 2,24", src[0].events, src[1].events);
    }
    hits_field[12]++;
  }
  // RAII: every handle created is destroyed exactly once
  CHECK(new_count == destroy_count, "raii", "%d handles created, %d destroyed", new_count, destroy_count);
}

static void constants(void)
{
  CHECK(reproc::signal::kill == REPROC_SIGKILL && reproc::signal::terminate == REPROC_SIGTERM, "constants", "signal constants differ");
  CHECK(reproc::infinite.count() == REPROC_INFINITE && reproc::deadline.count() == REPROC_DEADLINE, "constants", "timeout constants differ");
  CHECK((int) reproc::stop::noop == REPROC_STOP_NOOP && (int) reproc::stop::wait == REPROC_STOP_WAIT && (int) reproc::stop::terminate == REPROC_STOP_TERMINATE &&
            (int) reproc::stop::kill == REPROC_STOP_KILL,
        "enumerators", "stop enumerators differ");
  CHECK((int) reproc::redirect::default_ == REPROC_REDIRECT_DEFAULT && (int) reproc::redirect::pipe == REPROC_REDIRECT_PIPE && (int) reproc::redirect::parent == REPROC_REDIRECT_PARENT &&
            (int) reproc::redirect::discard == REPROC_REDIRECT_DISCARD && (int) reproc::redirect::stdout_ == REPROC_REDIRECT_STDOUT &&
            (int) reproc::redirect::handle_ == REPROC_REDIRECT_HANDLE && (int) reproc::redirect::file_ == REPROC_REDIRECT_FILE && (int) reproc::redirect::path_ == REPROC_REDIRECT_PATH,
        "enumerators", "redirect enumerators differ");
  CHECK((int) reproc::env::extend == REPROC_ENV_EXTEND && (int) reproc::env::empty == REPROC_ENV_EMPTY, "enumerators", "env enumerators differ");
  CHECK((int) reproc::stream::in == REPROC_STREAM_IN && (int) reproc::stream::out == REPROC_STREAM_OUT && (int) reproc::stream::err == REPROC_STREAM_ERR, "enumerators", "stream enumerators differ");
  CHECK(reproc::event::in == REPROC_EVENT_IN && reproc::event::out == REPROC_EVENT_OUT && reproc::event::err == REPROC_EVENT_ERR && reproc::event::exit == REPROC_EVENT_EXIT &&
            reproc::event::deadline == REPROC_EVENT_DEADLINE,
        "enumerators", "event bits differ");
}

int main(int argc, char **argv)
{
  options_space();
  containers_space();
  methods_space();
  constants();
  FILE *f = argc > 1 ? fopen(argv[1], "w") : stdout;
  fprintf(f, "{\"checks\":%ld,\"violations\":%ld,\"c_calls_recorded\":%d,\"fields\":{\"env.behavior\":%ld,\"env.extra\":%ld,\"working_directory\":%ld,\"redirect\":%ld,"
             "\"shorthands\":%ld,\"stop\":%ld,\"deadline\":%ld,\"input\":%ld,\"nonblocking\":%ld,\"pairs\":%ld,\"argument-containers\":%ld,\"env-containers\":%ld,\"return-values\":%ld},\"first\":[",
          checks, violations, rec.calls, hits_field[0], hits_field[1], hits_field[2], hits_field[3], hits_field[4], hits_field[5], hits_field[6], hits_field[7], hits_field[8],
          hits_field[9], hits_field[10], hits_field[11], hits_field[12]);
  for (int i = 0; i < nfirst; i++) fprintf(f, "%s%s", i ? "," : "", first[i]);
  fprintf(f, "],\"per_clause\":{");
  int k = 0;
  for (auto &e : per_clause) fprintf(f, "%s\"%s\":%ld", k++ ? "," : "", e.first.c_str(), e.second);
  fprintf(f, "}}\n");
  return 0;
}
