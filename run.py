#!/usr/bin/env python3
"""Driver for the reproc model-checking machinery (see DESIGN.md).

  run.py setup                          build helper + harness for the current /repo tree
  run.py check Cxx [--tier quick|thorough]
  run.py replay <replays/...json>
  run.py list
"""
import glob
import hashlib
import json
import os
import shutil
import subprocess
import sys
import time

VERIF = os.path.dirname(os.path.abspath(__file__))
REPO = os.environ.get("VERIF_REPO", "/repo")
# where evidence and replay files go (default: inside /verif; the seeded-change runner points this at a scratch directory)
OUTDIR = os.environ.get("VERIF_OUT", "")
BUILD = os.environ.get("VERIF_BUILD") or os.path.join(VERIF, "build")
NPROC = int(os.environ.get("VERIF_JOBS", "0")) or min(16, os.cpu_count() or 4)

BASE_CFLAGS = ["-O2", "-g", "-DNDEBUG", "-std=c99", "-DREPROC_MULTITHREADED"]

# property -> list of (harness name, variant)
PROPS = {}


def reg(prop, harness, variant="plain", level="model_checking"):
    PROPS.setdefault(prop, []).append((harness, variant, level))


reg("C01", "h_c01")
reg("C04", "h_c04")
reg("C05", "h_c05")
reg("C06", "h_c06")
reg("C06", "h_c01")
reg("C12", "h_c12")
reg("C07", "h_c07")
reg("C15", "h_c15")
reg("C15", "h_c15_cxx")
reg("C08", "h_c08")
reg("C09", "h_c09")
reg("C02", "h_c02")
reg("C17", "h_c17")
reg("C16", "h_c16")
reg("C16", "h_c16_cxx")
reg("C10", "h_c10")
reg("C11", "h_c11")
reg("C11", "h_c10")
reg("C13", "h_c13")
reg("C03", "h_c03")
reg("C03", "h_c03_deep", "asan")
reg("C03", "h_c03_cxx", "asan")
reg("C14", "h_c14", "asan")
reg("C20", "h_c20")

# quick / thorough wall-clock budgets per check (seconds); hitting one ends the run with exhaustive:false
DEADLINE = {"quick": 300, "thorough": 2400}


def sh(cmd, **kw):
    return subprocess.run(cmd, check=True, **kw)


def file_hash(paths):
    h = hashlib.sha256()
    for p in sorted(paths):
        h.update(p.encode())
        with open(p, "rb") as f:
            h.update(f.read())
    return h.hexdigest()[:16]


def repo_sources():
    src = sorted(glob.glob(os.path.join(REPO, "reproc/src/*.c")))
    return [s for s in src if ".windows." not in s]


def repo_all_inputs():
    return (glob.glob(os.path.join(REPO, "reproc/src/*.[ch]")) + glob.glob(os.path.join(REPO, "reproc/include/reproc/*.h"))
            + glob.glob(os.path.join(REPO, "reproc++/src/*.cpp")) + glob.glob(os.path.join(REPO, "reproc++/include/reproc++/*.hpp"))
            + glob.glob(os.path.join(REPO, "reproc++/include/reproc++/detail/*.hpp")))


def verif_sources():
    return (glob.glob(os.path.join(VERIF, "vk/*.[ch]")) + glob.glob(os.path.join(VERIF, "vk/syms.map"))
            + glob.glob(os.path.join(VERIF, "harness/*.[ch]")) + glob.glob(os.path.join(VERIF, "harness/*.cpp")) + glob.glob(os.path.join(VERIF, "child/*.[ch]")))


VARIANTS = {
    "plain": [],
    "asan": ["-fsanitize=address,undefined", "-fno-omit-frame-pointer", "-fno-sanitize-recover=undefined"],
}

KNOWN_PURE = {
    "memcpy", "memset", "memmove", "strlen", "strchr", "strerror_r", "__xpg_strerror_r", "strcpy", "strcmp", "strncmp", "memcmp",
    "abs", "__errno_location", "stdin", "stdout", "stderr", "__stack_chk_fail", "_GLOBAL_OFFSET_TABLE_", "__assert_fail",
    "strrchr", "strncpy", "strnlen", "__tls_get_addr", "strcat", "snprintf", "abort",
}


def parallel(cmds):
    procs = []
    for c in cmds:
        procs.append((c, subprocess.Popen(c, stdout=subprocess.PIPE, stderr=subprocess.STDOUT)))
    ok = True
    for c, p in procs:
        out, _ = p.communicate()
        if p.returncode != 0:
            ok = False
            sys.stderr.write("FAILED: %s\n%s\n" % (" ".join(c), out.decode(errors="replace")))
    if not ok:
        raise SystemExit(2)


def build(variant="plain", quiet=True):
    """Compile reproc from REPO's working tree, rename its libc references to vk_*, link the harness."""
    key = file_hash(repo_all_inputs() + verif_sources()) + "-" + variant
    out = os.path.join(BUILD, key)
    hx = os.path.join(out, "hx")
    if os.path.exists(hx) and os.path.exists(os.path.join(out, "vchild")):
        return out
    # drop stale builds (disk is limited)
    if os.path.isdir(BUILD):
        for d in os.listdir(BUILD):
            full = os.path.join(BUILD, d)
            if os.path.isdir(full) and d.endswith("-" + variant) and d != key:
                shutil.rmtree(full, ignore_errors=True)
    os.makedirs(out, exist_ok=True)
    san = VARIANTS[variant]
    inc = ["-I", os.path.join(REPO, "reproc/include"), "-I", os.path.join(REPO, "reproc/src")]
    cmds = []
    objs = []
    for s in repo_sources():
        o = os.path.join(out, "r_" + os.path.basename(s).replace(".c", ".o"))
        objs.append(o)
        cmds.append(["gcc"] + BASE_CFLAGS + ["-Wno-error"] + san + inc + ["-c", s, "-o", o])
    hobjs = []
    for s in sorted(glob.glob(os.path.join(VERIF, "vk/*.c")) + glob.glob(os.path.join(VERIF, "harness/*.c")) + [os.path.join(VERIF, "child/vchild.c")]):
        o = os.path.join(out, "h_" + os.path.basename(s).replace(".c", ".o"))
        hobjs.append(o)
        cmds.append(["gcc", "-O1", "-g", "-std=gnu11", "-Wall", "-Wno-unused-variable", "-Wno-unused-function", "-D_GNU_SOURCE"] + san + inc + ["-c", s, "-o", o])
    # C++ parts: reproc++ itself (from REPO) and the C++ harnesses, over the same interposed C objects
    cxxinc = ["-I", os.path.join(REPO, "reproc++/include")] + inc
    for s in sorted(glob.glob(os.path.join(VERIF, "harness/*.cpp"))) + [os.path.join(REPO, "reproc++/src/reproc.cpp")]:
        o = os.path.join(out, "x_" + os.path.basename(s).replace(".cpp", ".o"))
        hobjs.append(o)
        cmds.append(["g++", "-O1", "-g", "-std=c++11", "-Wall", "-Wno-unused-variable", "-Wno-unused-function", "-D_GNU_SOURCE"] + san + cxxinc + ["-c", s, "-o", o])
    cmds.append(["gcc", "-O1", "-static", "-DVCHILD_MAIN", "-D_GNU_SOURCE", os.path.join(VERIF, "child/vchild.c"), "-o", os.path.join(out, "vchild")])
    # 16 at a time
    for i in range(0, len(cmds), NPROC):
        parallel(cmds[i:i + NPROC])
    allo = os.path.join(out, "reproc_all.o")
    sh(["ld", "-r", "-o", allo] + objs)
    vko = os.path.join(out, "reproc_vk.o")
    sh(["objcopy", "--redefine-syms=" + os.path.join(VERIF, "vk/syms.map"), allo, vko])
    # which libc symbols does the library reach without passing through vk?
    und = subprocess.run(["nm", "-u", vko], stdout=subprocess.PIPE, check=True).stdout.decode().split("\n")
    unknown = []
    for line in und:
        parts = line.split()
        if not parts:
            continue
        sym = parts[-1].split("@")[0]
        if sym.startswith("vk_") or sym in KNOWN_PURE or sym.startswith("__asan") or sym.startswith("__ubsan") or sym.startswith("__sanitizer"):
            continue
        unknown.append(sym)
    with open(os.path.join(out, "unknown_symbols.json"), "w") as f:
        json.dump(unknown, f)
    sh(["g++"] + san + ["-o", hx, vko] + hobjs + ["-lpthread"])
    return out


def load_known():
    p = os.path.join(VERIF, "known_findings.json")
    if not os.path.exists(p):
        return []
    return json.load(open(p)).get("entries", [])


def make_scratch(bdir):
    base = "/dev/shm"
    if not (os.path.isdir(base) and os.access(base, os.W_OK)):
        base = BUILD
    sc = os.path.join(base, "reproc-verif-%d" % os.getpid())
    shutil.rmtree(sc, ignore_errors=True)
    os.makedirs(os.path.join(sc, "bin"))
    shutil.copy(os.path.join(bdir, "vchild"), os.path.join(sc, "bin/vchild"))
    os.chmod(os.path.join(sc, "bin/vchild"), 0o755)
    # is the scratch area exec-able?
    try:
        r = subprocess.run([os.path.join(sc, "bin/vchild")], stdout=subprocess.DEVNULL, stderr=subprocess.DEVNULL)
        if r.returncode != 97:
            raise OSError("helper does not run from scratch")
    except OSError:
        shutil.rmtree(sc, ignore_errors=True)
        sc = os.path.join(BUILD, "scratch-%d" % os.getpid())
        shutil.rmtree(sc, ignore_errors=True)
        os.makedirs(os.path.join(sc, "bin"))
        shutil.copy(os.path.join(bdir, "vchild"), os.path.join(sc, "bin/vchild"))
    return sc


def run_harness(bdir, sc, harness, tier, deadline, env_extra=None):
    env = dict(os.environ)
    env["HX_SCRATCH"] = sc
    env["ASAN_OPTIONS"] = "detect_leaks=0:abort_on_error=1:log_path=%s/asan" % sc
    env["UBSAN_OPTIONS"] = "halt_on_error=1:abort_on_error=1"
    if env_extra:
        env.update(env_extra)
    procs = []
    outs = []
    for i in range(NPROC):
        o = os.path.join(sc, "stats-%s-%d.json" % (harness, i))
        outs.append(o)
        procs.append(subprocess.Popen([os.path.join(bdir, "hx"), "run", harness, tier, str(i), str(NPROC), o, str(deadline)],
                                      env=env, stdout=subprocess.DEVNULL, stderr=subprocess.PIPE))
    errs = []
    for p in procs:
        _, e = p.communicate()
        if e:
            errs.append(e.decode(errors="replace"))
        if p.returncode != 0:
            errs.append("worker exited with %d" % p.returncode)
    stats = []
    for o in outs:
        if os.path.exists(o):
            stats.append(json.load(open(o)))
    return stats, errs


def merge(stats):
    m = {"executions": 0, "choice_points": 0, "distinct_observations": 0, "infra_errors": 0, "crashes": 0, "replay_checked": 0,
         "replay_mismatch": 0, "configs_total": 0, "configs_done": 0, "capped_configs": 0, "max_trace": 0, "trace_overflow": 0,
         "viol_overflow": 0, "real_exec_validated": 0, "real_exec_mismatch": 0, "free_run_validated": 0, "free_run_mismatch": 0, "bfs_states": 0, "bfs_max_depth": 0, "deadline_hit": False, "outcomes": {}, "deviations": {}, "clause_hits": {}, "violations": [], "samples": []}
    for s in stats:
        for k in ("executions", "choice_points", "distinct_observations", "infra_errors", "crashes", "replay_checked", "replay_mismatch",
                  "configs_done", "capped_configs", "trace_overflow", "viol_overflow", "bfs_states", "real_exec_validated", "real_exec_mismatch", "free_run_validated", "free_run_mismatch"):
            m[k] += s.get(k, 0)
        m["bfs_max_depth"] = max(m["bfs_max_depth"], s.get("bfs_max_depth", 0))
        m["configs_total"] = s["configs_total"]
        if s.get("split_dfs"):
            m.setdefault("_split_done", []).append(s["configs_done"])
        m["max_trace"] = max(m["max_trace"], s["max_trace"])
        m["deadline_hit"] = m["deadline_hit"] or s["deadline_hit"]
        for d in ("outcomes", "deviations", "clause_hits"):
            for k, v in s[d].items():
                m[d][k] = m[d].get(k, 0) + v
        m["violations"] += s["violations"]
        m["samples"] += s["samples"]
    if m.get("_split_done"):
        # every worker walks every configuration (its share of the subtrees): done = what all of them finished
        m["configs_done"] = min(m.pop("_split_done"))
    return m


def write_replay(prop, harness, tier, v):
    os.makedirs(os.path.join(OUTDIR or VERIF, "replays"), exist_ok=True)
    h = hashlib.sha256((v["key"]).encode()).hexdigest()[:10]
    path = os.path.join(OUTDIR or VERIF, "replays", "%s-%s.json" % (prop, h))
    json.dump({"property": prop, "harness": harness, "tier": tier, "cfg": v["cfg"], "choices": v["choices"], "clause": v["clause"],
               "key": v["key"], "observed": v["msg"], "log": v["log"].split("\n")}, open(path, "w"), indent=1)
    return path


def native_build_c18():
    key = file_hash([os.path.join(REPO, "reproc/src/process.windows.c"), os.path.join(REPO, "reproc/src/utf.windows.c"), os.path.join(REPO, "reproc/src/process.h"),
                     os.path.join(REPO, "reproc/src/handle.h"), os.path.join(REPO, "reproc/include/reproc/reproc.h"),
                     os.path.join(VERIF, "winstub/windows.h"), os.path.join(VERIF, "winstub/h_c18.c")]) + "-c18"
    out = os.path.join(BUILD, key)
    exe = os.path.join(out, "h_c18")
    if os.path.exists(exe):
        return exe
    if os.path.isdir(BUILD):
        for d in os.listdir(BUILD):
            if d.endswith("-c18") and d != key:
                shutil.rmtree(os.path.join(BUILD, d), ignore_errors=True)
    os.makedirs(out, exist_ok=True)
    parallel([["gcc", "-std=gnu11", "-g", "-O1", "-fsanitize=address,undefined", "-fno-sanitize-recover=undefined", "-D_WIN32", "-DNDEBUG",
               "-I", os.path.join(VERIF, "winstub"), "-I", os.path.join(REPO, "reproc/include"), "-I", os.path.join(REPO, "reproc/src"),
               os.path.join(VERIF, "winstub/h_c18.c"), os.path.join(REPO, "reproc/src/process.windows.c"), os.path.join(REPO, "reproc/src/utf.windows.c"),
               "-o", exe]])
    return exe


def finish_native(prop, tier, level, cov, viols, wall, assumptions, harness):
    """viols: list of dicts with clause, key, msg, replay (dict written to the replay file)."""
    known = {e["key"]: e for e in load_known() if e.get("property") == prop and e.get("status") == "known"}
    os.makedirs(os.path.join(OUTDIR or VERIF, "evidence"), exist_ok=True)
    uniq = {}
    for v in viols:
        uniq.setdefault(v["key"], v)
    new = {k: v for k, v in uniq.items() if k not in known}
    cov["known_findings_seen"] = sorted(k for k in uniq if k in known)
    ev = {"property_id": prop, "tier": tier, "seed": int(os.environ.get("VERIF_SEED", "0") or 0), "level": level, "coverage": cov,
          "assumptions": assumptions, "wall_s": round(wall, 2), "violations": len(new)}
    json.dump(ev, open(os.path.join(OUTDIR or VERIF, "evidence", prop + ".json"), "w"), indent=1)
    for k in sorted(uniq):
        if k in known:
            print("KNOWN-FINDING: property=%s %s %s" % (prop, k, known[k].get("what", uniq[k]["msg"])))
    rc = 0
    os.makedirs(os.path.join(OUTDIR or VERIF, "replays"), exist_ok=True)
    for k, v in sorted(new.items()):
        h = hashlib.sha256(k.encode()).hexdigest()[:10]
        path = os.path.join(OUTDIR or VERIF, "replays", "%s-%s.json" % (prop, h))
        rep = dict(v.get("replay", {}))
        rep.update({"property": prop, "harness": harness, "tier": tier, "key": k, "clause": v["clause"], "observed": v["msg"]})
        json.dump(rep, open(path, "w"), indent=1)
        print("VIOLATION property=%s replay=%s" % (prop, path))
        print("  key: %s\n  %s" % (k, v["msg"]))
        rc = 1
    return rc


def check_c18(tier):
    t0 = time.time()
    exe = native_build_c18()
    sc = make_scratch_dir()
    env = dict(os.environ)
    env["ASAN_OPTIONS"] = "detect_leaks=0:abort_on_error=1"
    env["UBSAN_OPTIONS"] = "halt_on_error=1:abort_on_error=1"
    procs = []
    for i in range(NPROC):
        o = os.path.join(sc, "c18-%d.json" % i)
        procs.append((o, subprocess.Popen([exe, "run", tier, str(i), str(NPROC), o], env=env, stdout=subprocess.DEVNULL, stderr=subprocess.PIPE)))
    stats, viols, msgs = [], [], []
    for o, p in procs:
        _, e = p.communicate()
        if p.returncode != 0:
            msgs.append("worker exited with %d: %s" % (p.returncode, e.decode(errors="replace")[-1500:]))
            viols.append({"clause": "crash", "key": "h_c18|clause=crash", "msg": "the harness process died (sanitizer report or signal): " + e.decode(errors="replace")[-600:].replace("\n", " | "),
                          "replay": {"note": "re-run: run.py check C18"}})
        if os.path.exists(o):
            stats.append(json.load(open(o)))
    shutil.rmtree(sc, ignore_errors=True)
    hits = {}
    samples = []
    for s in stats:
        for k, v in s["clause_hits"].items():
            hits[k] = hits.get(k, 0) + v
        for v in s["violations"]:
            empty = "-" in v["argv_hex"].split(",")
            key = "h_c18|%s|clause=%s" % ("empty-argument" if empty else "non-empty-arguments", v["clause"])
            viols.append({"clause": v["clause"], "key": key, "msg": v["msg"] + " (argv in hex: " + v["argv_hex"] + ")", "replay": {"argv_hex": v["argv_hex"]}})
    vectors = sum(s["vectors"] for s in stats)
    envs = sum(s["env_cases"] for s in stats)
    mb = sum(s["multibyte"] for s in stats)
    cov = {"states": vectors + envs + mb, "transitions": vectors + envs + mb, "traces_validated_against_impl": vectors + envs + mb,
           "evaluations": vectors + envs + mb, "distinct_nontrivial": hits.get("needed-quoting", 0) and (vectors + envs),
           "rule": "one evaluation = one argument vector (or environment list) pushed through the real process_start() of process.windows.c with a recording "
                   "CreateProcessW; every vector of the stated alphabet and lengths is enumerated once (distinct by construction); the recorded command line is "
                   "split again with an independent implementation of the documented CommandLineToArgvW/MSVCRT rules",
           "exhaustive": len(stats) == NPROC and not msgs,
           "bounds": {"alphabet": "a space tab newline vtab doublequote backslash", "quick": "1 arg <=6, 2 args <=3, 3 args <=2 bytes", "thorough": "1 arg <=8, 2 args <=4, 3 args <=3 bytes",
                      "argv0": ["prog", "my prog"]},
           "clause_hits": hits, "vectors": vectors, "environment_cases": envs, "multibyte_cases": mb, "worker_messages": msgs[:5],
           "samples": [{"argv": ["prog", "a b", "c\\\\", "\"q\""], "note": "each vector is checked for round trip, the buffers under ASan"},
                       {"violations_sample": [v for s in stats for v in s["violations"]][:3]}]}
    rc = finish_native("C18", tier, "model_checking", cov, viols, time.time() - t0,
                       ["the Windows sources run on Linux against stub Win32 functions (winstub/windows.h); wchar_t is 4 bytes here, one UTF-16 code unit per element",
                        "the splitting oracle implements the post-2008 MSVCRT / CommandLineToArgvW rules"], "h_c18")
    print("C18 %s: %d vectors, %d environment cases, %d multibyte cases, exhaustive=%s, %.1fs" % (tier, vectors, envs, mb, cov["exhaustive"], time.time() - t0))
    return rc


def native_build_c19():
    srcs = (glob.glob(os.path.join(REPO, "reproc++/src/*.cpp")) + glob.glob(os.path.join(REPO, "reproc++/include/reproc++/*.hpp"))
            + glob.glob(os.path.join(REPO, "reproc++/include/reproc++/detail/*.hpp")) + [os.path.join(REPO, "reproc/include/reproc/reproc.h"), os.path.join(VERIF, "cxx/h_c19.cpp")])
    key = file_hash(srcs) + "-c19"
    out = os.path.join(BUILD, key)
    exe = os.path.join(out, "h_c19")
    if os.path.exists(exe):
        return exe
    if os.path.isdir(BUILD):
        for d in os.listdir(BUILD):
            if d.endswith("-c19") and d != key:
                shutil.rmtree(os.path.join(BUILD, d), ignore_errors=True)
    os.makedirs(out, exist_ok=True)
    parallel([["g++", "-std=c++11", "-g", "-O1", "-fsanitize=address,undefined", "-fno-sanitize-recover=undefined", "-I", os.path.join(REPO, "reproc++/include"),
               "-I", os.path.join(REPO, "reproc/include"), os.path.join(VERIF, "cxx/h_c19.cpp"), os.path.join(REPO, "reproc++/src/reproc.cpp"), "-o", exe]])
    return exe


def check_c19(tier):
    t0 = time.time()
    exe = native_build_c19()
    sc = make_scratch_dir()
    out = os.path.join(sc, "c19.json")
    env = dict(os.environ)
    env["ASAN_OPTIONS"] = "detect_leaks=1:abort_on_error=1"
    env["UBSAN_OPTIONS"] = "halt_on_error=1:abort_on_error=1"
    p = subprocess.run([exe, out], env=env, stdout=subprocess.DEVNULL, stderr=subprocess.PIPE)
    viols = []
    st = {"checks": 0, "violations": 0, "fields": {}, "first": [], "per_clause": {}, "c_calls_recorded": 0}
    if p.returncode != 0 or not os.path.exists(out):
        viols.append({"clause": "crash", "key": "h_c19|clause=crash", "msg": "the harness died (sanitizer report or signal): " + p.stderr.decode(errors="replace")[-600:].replace("\n", " | ")})
    else:
        st = json.load(open(out))
        for v in st["first"]:
            viols.append({"clause": v["clause"], "key": "h_c19|clause=%s" % v["clause"], "msg": v["msg"] + " (%d failing comparisons of this kind)" % st["per_clause"].get(v["clause"], 1)})
        for c in st["per_clause"]:
            if not any(v["clause"] == c for v in viols):
                viols.append({"clause": c, "key": "h_c19|clause=%s" % c, "msg": "%d failing comparisons" % st["per_clause"][c]})
    shutil.rmtree(sc, ignore_errors=True)
    cov = {"states": st["c_calls_recorded"], "transitions": st["checks"], "traces_validated_against_impl": st["c_calls_recorded"],
           "evaluations": st["c_calls_recorded"], "distinct_nontrivial": st["c_calls_recorded"],
           "rule": "one evaluation = one call that reaches the recording fake of the C API through the unmodified reproc++ sources; the menus (every options field alone "
                   "over its boundary values on three bases, shorthand/bool pairs, containers of 0..3 strings over a 9-string alphabet, every wrapper method x 11 C "
                   "return values) are enumerated completely; transitions = field-level comparisons made",
           "exhaustive": p.returncode == 0, "field_menus": st["fields"], "per_clause_failures": st["per_clause"],
           "samples": [{"menu": "options field alone", "example": "base1 stop.2=(kill, INT_MAX)"}, {"menu": "return values", "values": [-2147483647, -22, -32, -110, -12, -11, -1, 0, 1, 137, 2147483647]}]}
    rc = finish_native("C19", tier, "model_checking", cov, viols, time.time() - t0,
                       ["the C layer is a recording fake: only the mapping done by reproc++ is judged", "menus are boundary values, not all 2^32 integers"], "h_c19")
    print("C19 %s: %d C-layer calls recorded, %d comparisons, %d failing, %.1fs" % (tier, st["c_calls_recorded"], st["checks"], st["violations"], time.time() - t0))
    return rc


def native_build_tsan():
    srcs = repo_all_inputs() + [os.path.join(VERIF, "tsan/h_c20_tsan.c")]
    key = file_hash(srcs) + "-tsan"
    out = os.path.join(BUILD, key)
    exe = os.path.join(out, "h_c20_tsan")
    if os.path.exists(exe):
        return exe
    if os.path.isdir(BUILD):
        for d in os.listdir(BUILD):
            if d.endswith("-tsan") and d != key:
                shutil.rmtree(os.path.join(BUILD, d), ignore_errors=True)
    os.makedirs(out, exist_ok=True)
    inc = ["-I", os.path.join(REPO, "reproc/include"), "-I", os.path.join(REPO, "reproc/src")]
    cmds, objs = [], []
    for s in repo_sources():
        o = os.path.join(out, "t_" + os.path.basename(s).replace(".c", ".o"))
        objs.append(o)
        cmds.append(["gcc"] + BASE_CFLAGS + ["-Wno-error", "-fsanitize=thread"] + inc + ["-c", s, "-o", o])
    ho = os.path.join(out, "t_harness.o")
    cmds.append(["gcc", "-std=gnu11", "-g", "-O1", "-fsanitize=thread"] + inc + ["-c", os.path.join(VERIF, "tsan/h_c20_tsan.c"), "-o", ho])
    parallel(cmds)
    sh(["gcc", "-fsanitize=thread", "-o", exe, ho] + objs + ["-lpthread"])
    return exe


def run_tsan_monitor(tier):
    """Free-running ThreadSanitizer pass for C20: returns (info dict, violations list)."""
    exe = native_build_tsan()
    runs = 400 if tier == "thorough" else 60
    env = dict(os.environ)
    env["TSAN_OPTIONS"] = "halt_on_error=0 exitcode=66 report_signal_unsafe=0"
    t0 = time.time()
    limit = 90 if tier == "quick" else 600
    p = subprocess.Popen([exe, str(runs)], env=env, stdout=subprocess.PIPE, stderr=subprocess.PIPE, start_new_session=True)
    try:
        out_b, err_b = p.communicate(timeout=limit)
    except subprocess.TimeoutExpired:
        try:
            os.killpg(p.pid, 9)
        except OSError:
            pass
        out_b, err_b = p.communicate()
        err = err_b.decode(errors="replace")
        info = {"runs": runs, "tsan_reports": err.count("WARNING: ThreadSanitizer"), "exit": "timeout", "wall_s": round(time.time() - t0, 2)}
        return info, [{"clause": "free-run-hang", "key": "h_c20_tsan|clause=free-run-hang",
                       "msg": "the free-running threads did not finish %d life cycles within %d s (deadlock or lost end-of-file); TSan output so far: %s" % (runs, limit, err[:500].replace("\n", " | "))}]
    p.stdout_text = out_b.decode(errors="replace")
    err = err_b.decode(errors="replace")
    reports = err.count("WARNING: ThreadSanitizer")
    info = {"runs": runs, "tsan_reports": reports, "exit": p.returncode, "wall_s": round(time.time() - t0, 2)}
    viols = []
    if reports or p.returncode == 66:
        first = err[err.find("WARNING: ThreadSanitizer"):][:900].replace("\n", " | ")
        kind = "data-race" if "data race" in err else "other"
        viols.append({"clause": "tsan-" + kind, "key": "h_c20_tsan|clause=tsan-%s" % kind, "msg": "ThreadSanitizer reported %d problem(s) in %d free runs: %s" % (reports, runs, first)})
    elif p.returncode != 0:
        viols.append({"clause": "free-run-functional", "key": "h_c20_tsan|clause=free-run-functional",
                      "msg": "free-running threads: wrong bytes or status (%s %s)" % (p.stdout_text.strip(), err[-300:].replace("\n", " | "))})
    return info, viols


def make_scratch_dir():
    base = "/dev/shm" if os.path.isdir("/dev/shm") and os.access("/dev/shm", os.W_OK) else BUILD
    sc = os.path.join(base, "reproc-verif-n%d" % os.getpid())
    shutil.rmtree(sc, ignore_errors=True)
    os.makedirs(sc)
    return sc


def check(prop, tier):
    if prop == "C18":
        return check_c18(tier)
    if prop == "C19":
        return check_c19(tier)
    t0 = time.time()
    known = [e for e in load_known() if e.get("property") == prop and e.get("status") == "known"]
    known_keys = {e["key"]: e for e in known}
    allm = []
    new_viol = []
    seen_known = {}
    errs_all = []
    unknown_syms = []
    level = "model_checking"
    deadline = float(os.environ.get("VERIF_DEADLINE", DEADLINE[tier]))
    harnesses = PROPS[prop]
    for harness, variant, lvl in harnesses:
        level = lvl
        bdir = build(variant)
        unknown_syms = json.load(open(os.path.join(bdir, "unknown_symbols.json")))
        sc = make_scratch(bdir)
        try:
            # each harness of a property gets what is left of the property's budget (the later ones are the small ones)
            stats, errs = run_harness(bdir, sc, harness, tier, max(30.0, deadline - (time.time() - t0)))
        finally:
            shutil.rmtree(sc, ignore_errors=True)
        errs_all += errs
        m = merge(stats)
        m["harness"] = harness
        allm.append(m)
        for v in m["violations"]:
            if v["prop"] != prop:
                continue  # clauses owned by another property are tallied only
            if not v["confirmed"]:
                m["infra_errors"] += 1
                continue
            if v["key"] in known_keys:
                seen_known[v["key"]] = v
            else:
                new_viol.append((harness, v))
    tsan_info = None
    if prop == "C20":
        tsan_info, tv = run_tsan_monitor(tier)
        for v in tv:
            vv = {"prop": "C20", "clause": v["clause"], "key": v["key"], "msg": v["msg"], "cfg": -1, "choices": [], "log": "re-run: run.py check C20", "count": 1, "confirmed": 1}
            if v["key"] in known_keys:
                seen_known[v["key"]] = vv
            else:
                new_viol.append(("h_c20_tsan", vv))
    # merge identical keys across workers
    uniq = {}
    for harness, v in new_viol:
        uniq.setdefault(v["key"], (harness, v))
    wall = time.time() - t0
    tot = {k: sum(m[k] for m in allm) for k in ("executions", "choice_points", "distinct_observations", "infra_errors", "crashes",
                                                "replay_checked", "replay_mismatch", "configs_total", "configs_done", "capped_configs",
                                                "trace_overflow", "viol_overflow")}
    other = {}
    for m in allm:
        for v in m["violations"]:
            if v["prop"] != prop:
                other[v["prop"] + "/" + v["clause"]] = other.get(v["prop"] + "/" + v["clause"], 0) + v["count"]
    exhaustive = (not any(m["deadline_hit"] for m in allm) and tot["capped_configs"] == 0 and tot["infra_errors"] == 0
                  and tot["configs_done"] == tot["configs_total"] and tot["trace_overflow"] == 0 and tot["replay_mismatch"] == 0 and not errs_all
                  and sum(m["real_exec_mismatch"] + m["free_run_mismatch"] for m in allm) == 0 and not unknown_syms)
    if unknown_syms:
        # a libc entry point the controlled layer does not interpose: its answers are not enumerated, its effects not in the ledgers
        sys.stderr.write("UNMODELLED: the library now reaches libc symbol(s) %s that /verif/vk does not interpose; exhaustive=false for %s\n" % (", ".join(unknown_syms), prop))
    samples = []
    for m in allm:
        for s in m["samples"][:3]:
            samples.append({"harness": m["harness"], "config": s["config"], "choices": s["choices"], "outcome": s["outcome"],
                            "log": s["log"].split("\n")[:120]})
    ev = {
        "property_id": prop, "tier": tier, "seed": int(os.environ.get("VERIF_SEED", "0") or 0), "level": level,
        "coverage": {
            "states": (sum(m["bfs_states"] for m in allm) or tot["distinct_observations"]),
            # every execution is at least the transition out of the initial state of its configuration; choice points passed come on top
            "transitions": (tot["executions"] if any(m["bfs_states"] for m in allm) else tot["choice_points"] + tot["executions"]),
            "traces_validated_against_impl": tot["replay_checked"] + sum(m["real_exec_validated"] + m["free_run_validated"] for m in allm),
            "validated_free_running": sum(m["free_run_validated"] for m in allm), "free_run_mismatch": sum(m["free_run_mismatch"] for m in allm),
            "validated_real_exec": sum(m["real_exec_validated"] for m in allm), "real_exec_mismatch": sum(m["real_exec_mismatch"] for m in allm),
            "evaluations": tot["executions"], "distinct_nontrivial": tot["distinct_observations"],
            "rule": "one evaluation = one complete execution of the real library under one choice sequence (schedule of child steps, fault answers, "
                    "clock outcomes) of one configuration; distinct = distinct hash of the API-level observation log (results, bytes, events); "
                    "states = distinct observation logs, transitions = choice points passed",
            "exhaustive": exhaustive,
            "bfs_states": sum(m["bfs_states"] for m in allm), "bfs_max_depth": max(m["bfs_max_depth"] for m in allm),
            "configurations": tot["configs_total"], "configurations_done": tot["configs_done"], "capped_configurations": tot["capped_configs"],
            "deadline_hit": any(m["deadline_hit"] for m in allm),
            "bounds": {m["harness"]: m["deviations"] for m in allm},
            "outcome_histogram": {m["harness"]: m["outcomes"] for m in allm},
            "clause_hits": {m["harness"]: m["clause_hits"] for m in allm},
            "clauses_never_exercised": {m["harness"]: sorted(k for k, v in m["clause_hits"].items() if v == 0) for m in allm},
            "infra_errors": tot["infra_errors"], "replay_determinism_checked": tot["replay_checked"], "replay_mismatch": tot["replay_mismatch"],
            "unknown_symbols": unknown_syms, "other_clauses_failed": other,
            "known_findings_seen": sorted(seen_known.keys()),
            "worker_messages": errs_all[:10],
            "tsan_free_running_monitor": tsan_info,
            "samples": samples[:4],
        },
        "assumptions": [
            "Linux/glibc, POSIX sources only",
            "the scripted child never touches the exit descriptor",
            "scheduling granularity = intercepted libc calls; the kernel answers every call that is not an injected fault",
        ],
        "wall_s": round(wall, 2), "violations": len(uniq),
    }
    os.makedirs(os.path.join(OUTDIR or VERIF, "evidence"), exist_ok=True)
    json.dump(ev, open(os.path.join(OUTDIR or VERIF, "evidence", prop + ".json"), "w"), indent=1)
    for k, v in sorted(seen_known.items()):
        print("KNOWN-FINDING: property=%s %s %s" % (prop, k, known_keys[k].get("what", v["msg"])))
    rc = 0
    for k, (harness, v) in sorted(uniq.items()):
        path = write_replay(prop, harness, tier, v)
        print("VIOLATION property=%s replay=%s" % (prop, path))
        print("  key: %s\n  %s" % (k, v["msg"]))
        rc = 1
    print("%s %s: %d executions, %d choice points, %d distinct observations, %d configs, exhaustive=%s, infra=%d, %.1fs" % (
        prop, tier, tot["executions"], tot["choice_points"], tot["distinct_observations"], tot["configs_total"], exhaustive,
        tot["infra_errors"], wall))
    for e in errs_all[:5]:
        sys.stderr.write(e[:2000] + "\n")
    # vacuity guard (Appendix D): an oracle clause that was never exercised says nothing
    for m in allm:
        zero = sorted(k for k, v in m["clause_hits"].items() if v == 0)
        if zero:
            sys.stderr.write("VACUOUS: %s %s: clause(s) never exercised in this tier: %s\n" % (prop, m["harness"], ", ".join(zero)))
    return rc


def replay(path):
    r = json.load(open(path))
    prop = r["property"]
    if r.get("harness") == "h_c19":
        return check_c19("quick")
    if r.get("harness") == "h_c18":
        exe = native_build_c18()
        env = dict(os.environ)
        env["ASAN_OPTIONS"] = "detect_leaks=0"
        return subprocess.run([exe, "replay", r.get("argv_hex", "")], env=env).returncode
    variant = "plain"
    for h, v, _ in PROPS.get(prop, []):
        if h == r["harness"]:
            variant = v
    bdir = build(variant)
    sc = make_scratch(bdir)
    try:
        env = dict(os.environ)
        env["HX_SCRATCH"] = sc
        p = subprocess.run([os.path.join(bdir, "hx"), "replay", r["harness"], r["tier"], str(r["cfg"]), ",".join(map(str, r["choices"]))], env=env)
        return p.returncode
    finally:
        shutil.rmtree(sc, ignore_errors=True)


def main():
    if len(sys.argv) < 2:
        print(__doc__)
        return 2
    cmd = sys.argv[1]
    if cmd == "setup":
        for v in sorted({v for hs in PROPS.values() for _, v, _ in hs}):
            build(v)
        native_build_c18()
        native_build_c19()
        native_build_tsan()
        print("setup ok")
        return 0
    if cmd == "list":
        print(json.dumps(PROPS, indent=1))
        return 0
    if cmd == "check":
        prop = sys.argv[2]
        tier = os.environ.get("VERIF_TIER", "quick")
        if "--tier" in sys.argv:
            tier = sys.argv[sys.argv.index("--tier") + 1]
        return check(prop, tier)
    if cmd == "replay":
        return replay(sys.argv[2])
    print(__doc__)
    return 2


if __name__ == "__main__":
    sys.exit(main())
