/* vk: the controlled environment under the real reproc objects.
 * Every libc symbol X referenced by the library is renamed to vk_X at object
 * level; vk_X is a choice point for the explorer, feeds the ledgers and then
 * (usually) performs the real call. See DESIGN.md section 2. */
#ifndef VK_H
#define VK_H
#ifndef _GNU_SOURCE
#define _GNU_SOURCE
#endif
#include <stddef.h>
#include <stdint.h>
#include <sys/types.h>

#include "../child/proto.h"

#ifdef __cplusplus
extern "C" {
#endif

enum { K_SCHED = 0, K_BLOCK, K_FAULT, K_TIME, K_OP, K_NKINDS };
enum { OUT_NONE = 0, OUT_DONE, OUT_HANG, OUT_INFRA, OUT_CRASH, OUT_NOUT };

enum {
  C_NONE = 0, C_PIPE, C_CLOSE, C_READ, C_WRITE, C_POLL, C_FORK, C_WAITPID, C_KILL, C_OPEN, C_DUP2,
  C_FCNTL, C_CHDIR, C_EXEC, C_GETCWD, C_GETRLIMIT, C_FILENO, C_MALLOC, C_CALLOC, C_REALLOC,
  C_STRDUP, C_FREE, C_SIGMASK, C_SIGACTION, C_SIGSET, C_CLOCK, C_EXIT, C_DUP, C_SLEEP, C_CLOSE_RANGE, C_NCALLS
};

#define VK_MAX_TRACE 16384
#define VK_MAX_EVENTS 4096
#define VK_MAX_VIOL 8
#define VK_LOG_SIZE (1 << 17)
#define VK_MAX_CHILDREN 4
#define VK_MAX_STEPS 24
#define VK_NCLAUSE 96

struct vk_choice {
  uint8_t kind, n, chosen, cost;
  char label[12];
};

struct vk_event {
  int32_t api;   /* sequence number of the API call in progress (0 = outside) */
  int16_t call;  /* C_xxx */
  int16_t side;  /* 0 parent, 1 library code on the forked side */
  int64_t t;     /* virtual ms when the call was entered */
  long a0, a1, a2;
  long ret;
  int32_t err;
  int32_t blocked;    /* number of times the call was found blocked */
  int32_t blocked_ms; /* virtual time spent blocked */
  int32_t woke_child; /* index+1 of the child whose step ended the last blocked interval, 0 = none/timeout */
  int32_t injected;   /* errno injected (or shape id <0), 0 = real answer */
};

struct vk_violation {
  char prop[8];
  char clause[40];
  char key[300];
  char msg[600];
};

struct vk_shared {
  /* input */
  int prefix_len;
  uint8_t prefix[VK_MAX_TRACE];
  int verbose;
  int force_passthru;  /* differential validation: free-running execution (real blocking, real clock, autonomous helper) */
  int force_real_exec; /* differential validation: run this execution with the real exec although the harness asked for the emulated one */
  /* output */
  int emulated_exec_used;
  int free_run_ok;     /* set by the harness: this configuration's default schedule can be compared with a free run */
  int ntrace;
  struct vk_choice trace[VK_MAX_TRACE];
  int used[K_NKINDS]; /* deviations taken so far, per kind */
  int nevents;
  struct vk_event ev[VK_MAX_EVENTS];
  int nviol;
  struct vk_violation viol[VK_MAX_VIOL];
  int outcome;
  char outcome_msg[300];
  uint64_t obs_hash;
  int diverged;
  int trace_overflow;
  uint32_t clause_hits[VK_NCLAUSE];
  int loglen;
  char log[VK_LOG_SIZE];
  char cfgdesc[300];
  /* child-side scratch */
  int child_exit_called; /* library code on the forked side called _exit(code+1) */
  int64_t clock_ms;      /* virtual clock, shared so that both sides agree */
  uint64_t state_digest; /* BFS harnesses: canonical digest of the state reached */
  int state_terminal;    /* BFS harnesses: do not expand this state */
  char crashkey[160];    /* violation key to use if the execution process dies */
};

struct vk_cfg {
  int real_exec;       /* 1: execvp is passed through; 0: emulated (helper linked in) */
  int fork_mode;       /* the harness uses options.fork */
  int fork_child_first;/* fork mode: run the forked side up to hello before the parent continues */
  int sched_on, sched_bound;
  int faults_on, fault_bound;
  int time_on, time_bound, time_jump;
  int total_bound;     /* if > 0: cap on scheduling + fault + clock deviations together */
  int foreign_reaper;  /* waitpid may also answer ECHILD: somebody else in the application (SIGCHLD ignored, a waitpid(-1) loop) reaped the child first */
  int vlimit;          /* virtual RLIMIT_NOFILE (soft) reported to the library */
  int elapsed_inf_n;   /* elapsed menu while blocked without OS timeout */
  int elapsed_inf[4];
  int dry_mode;        /* C13: first resource-creating call ends the execution */
  int hello_lite;      /* emulated exec only: the helper reports descriptors by probing and no signal state */
  int passthru;        /* free-running validation: no choice points, real blocking, real clock */
  unsigned long long fault_calls; /* bit per C_xxx: which calls get a FAULT menu (0 = all) */
};

struct vk_hello {
  int pid, image;
  int argc;
  char **argv;
  int envc;
  char **envp;
  char *cwd;
  uint64_t blk, ign, cgt;
  int nfd;
  struct vc_fdinfo *fds;
};

enum { CH_NONE = 0, CH_LIBRUN, CH_LIBPEND, CH_RUNNING, CH_ZOMBIE, CH_REAPED, CH_DEAD_PREHELLO };

struct vk_step {
  int op, a, b;
  int done;
};

struct vk_sigrec {
  int sig;
  int64_t t;
  int api;
  int child_state; /* state of the child when the signal was sent */
};

struct vk_child {
  int idx, pid, ctl, state;
  int have_hello;
  struct vk_hello hello;
  struct vk_step steps[VK_MAX_STEPS];
  int nsteps, pos, nsetup;
  char disp[65];
  int handled[65];
  struct vk_sigrec sigs[16];
  int nsigs;
  int64_t exit_time;   /* virtual time the child became a zombie */
  int expect_status;   /* what reproc must report: code or 128+sig */
  int ended_by;        /* 0 own step, else signal number sent through the library */
  int reaps;           /* successful waitpid calls on this pid */
  int64_t reap_time;
  uint8_t *in_data;    /* what the child's R steps reported */
  size_t in_n, in_cap;
  int in_eof;
  uint32_t wrote[3];   /* pattern bytes written per fd */
  int werr[3];         /* errno of a failed W step */
  uint32_t echoed;     /* bytes an E step has copied from stdin to stdout so far */
  int closed_fd[3];    /* the helper closed its descriptor 0/1/2 */
  int pending_sig;     /* a signal the library has sent (kill returned 0) whose effect on the child has not happened yet */
  int autonomous;      /* free-running validation: the helper runs its script by itself */
  /* merged write order, for stderr->stdout: sequence of (fd,count) */
  struct { int fd; uint32_t n; } worder[64];
  int nworder;
};

extern struct vk_shared *S;
extern struct vk_cfg vk_cfg;
extern char **vk_environ;
extern int vk_side;        /* 0 parent, 1 library code after fork, 2 forked side back in the harness */
extern __thread int vk_api_seq; /* API call in progress (per thread), 0 outside */
extern int vk_faults_armed;
extern int vk_nchildren;
extern struct vk_child vk_children[VK_MAX_CHILDREN];
extern const char *vk_call_names[];
extern char vk_scratch[256];
extern char vk_helper_path[300];

/* --- explorer side ---------------------------------------------------- */
int vk_choose(int kind, int n, int cost, const char *label);
void vk_log(const char *fmt, ...) __attribute__((format(printf, 1, 2)));
void vk_obs(const char *fmt, ...) __attribute__((format(printf, 1, 2))); /* log + hash */
void vk_violation(const char *prop, const char *clause, const char *key, const char *fmt, ...)
    __attribute__((format(printf, 4, 5)));
void vk_hit(int clause);
void vk_finish(int outcome, const char *fmt, ...) __attribute__((noreturn, format(printf, 2, 3)));
void vk_set_hang_hook(void (*fn)(const char *where));

/* --- harness side ----------------------------------------------------- */
void vk_exec_init(void); /* call first in the execution process */
void vk_script(const char *script); /* script for the next child forked by the library */
int vk_child_enabled(struct vk_child *c);
int vk_child_step(struct vk_child *c); /* 1 if something happened */
struct vk_child *vk_child_by_pid(int pid);
int64_t vk_now(void);
void vk_advance(int ms);
int vk_api_begin(const char *fmt, ...) __attribute__((format(printf, 1, 2)));
void vk_api_end(long r);
void vk_forked_side_becomes_helper(void) __attribute__((noreturn));
int vk_sched_point(const char *label);
void vk_force_fault(int call, int err);
void vk_autonomous_collect(struct vk_child *c); /* free-running validation: wait for the helper's report (what it read and wrote) */
extern int vk_autonomous_gap_ms; /* the next parent-side call of this kind fails with err (harness-decided, not a choice point) */
extern __thread int vk_calls_in_api; /* intercepted calls since the API call began (livelock guard) */ /* explicit scheduling point between API calls */

/* ledgers */
int vk_fd_ledger_open_count(void);  /* descriptors the library owns right now */
int vk_heap_live_count(void);
size_t vk_heap_live_bytes(void);
extern int vk_foreign_closes, vk_double_closes, vk_foreign_frees, vk_bad_kills, vk_bad_waits, vk_reap_blocked;
int vk_lib_owns_fd(int fd);
/* /proc/self/fd snapshot of descriptors < HARNESS_FD_BASE: returns count, fills arrays */
struct vk_fdsnap {
  int n;
  struct { int fd; uint64_t dev, ino; } e[128];
};
void vk_fd_snapshot(struct vk_fdsnap *s);
int vk_fd_snapshot_equal(const struct vk_fdsnap *a, const struct vk_fdsnap *b, char *diff, size_t n);

/* event queries */
int vk_count_calls(int api, int call);       /* parent-side events of `call` during API call `api` (call 0 = any visible: poll/waitpid/kill/read/write) */
struct vk_event *vk_last_event(int api, int call);

/* --- cooperative threads (C20): one thread runs at a time; every intercepted call is a scheduling point --- */
#define VK_MAX_THREADS 4
extern int vk_threads_on;
int vk_thread_create(void *(*fn)(void *), void *arg); /* returns the thread index (0 is the creating thread) */
void vk_thread_join(int idx);
int vk_thread_self(void);

/* move a harness-owned descriptor out of the library's number space */
int vk_high_fd(int fd);
void vk_kill_children(void);

#ifdef __cplusplus
}
#endif

#endif
