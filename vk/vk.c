/* vk.c — interposition layer, ledgers, blocking model, virtual clock, fault
 * answers, child control. See vk.h and DESIGN.md section 2. */
#include "vk.h"

#include <dirent.h>
#include <errno.h>
#include <fcntl.h>
#include <poll.h>
#include <signal.h>
#include <stdarg.h>
#include <stdio.h>
#include <stdlib.h>
#include <string.h>
#include <sys/resource.h>
#include <sys/socket.h>
#include <sys/stat.h>
#include <sys/syscall.h>
#include <sys/time.h>
#include <sys/wait.h>
#include <time.h>
#include <unistd.h>

extern char **environ;

struct vk_shared *S;
struct vk_cfg vk_cfg;
char **vk_environ;
int vk_side;
__thread int vk_api_seq;
int vk_faults_armed;
int vk_nchildren;
struct vk_child vk_children[VK_MAX_CHILDREN];
char vk_scratch[256];
char vk_helper_path[300];
int vk_foreign_closes, vk_double_closes, vk_foreign_frees, vk_bad_kills, vk_bad_waits, vk_reap_blocked;

static int api_counter;
static void (*hang_hook)(const char *);
static char pending_scripts[VK_MAX_CHILDREN][256];
static int n_pending_scripts, next_script;
static int my_child_idx = -1; /* on the forked side: which child am I */
static int my_ctl = -1;

const char *vk_call_names[] = { "none", "pipe", "close", "read", "write", "poll", "fork", "waitpid", "kill",
  "open", "dup2", "fcntl", "chdir", "exec", "getcwd", "getrlimit", "fileno", "malloc", "calloc", "realloc",
  "strdup", "free", "sigmask", "sigaction", "sigset", "clock", "_exit", "dup", "sleep", "close_range" };

/* ---------------------------------------------------------------- logging */

void vk_log(const char *fmt, ...)
{
  if (!S || !S->verbose) return;
  int room = VK_LOG_SIZE - S->loglen - 2;
  if (room < 64) return;
  va_list ap;
  va_start(ap, fmt);
  int n = vsnprintf(S->log + S->loglen, (size_t) room, fmt, ap);
  va_end(ap);
  if (n < 0) return;
  if (n >= room) n = room - 1;
  S->loglen += n;
  S->log[S->loglen++] = '\n';
  S->log[S->loglen] = 0;
}

static uint64_t fnv(uint64_t h, const char *s, size_t n)
{
  for (size_t i = 0; i < n; i++) {
    h ^= (unsigned char) s[i];
    h *= 1099511628211ull;
  }
  return h;
}

void vk_obs(const char *fmt, ...)
{
  char b[512];
  va_list ap;
  va_start(ap, fmt);
  int n = vsnprintf(b, sizeof b, fmt, ap);
  va_end(ap);
  if (n < 0) return;
  if (n >= (int) sizeof b) n = sizeof b - 1;
  if (!S->obs_hash) S->obs_hash = 1469598103934665603ull;
  S->obs_hash = fnv(S->obs_hash, b, (size_t) n + 1);
  vk_log("  obs: %s", b);
}

void vk_hit(int clause)
{
  if (clause >= 0 && clause < VK_NCLAUSE) S->clause_hits[clause]++;
}

void vk_violation(const char *prop, const char *clause, const char *key, const char *fmt, ...)
{
  char msg[600];
  if (vk_cfg.passthru) return; /* free runs only produce observations to compare; their oracles lack the bookkeeping of stepped runs */
  va_list ap;
  va_start(ap, fmt);
  vsnprintf(msg, sizeof msg, fmt, ap);
  va_end(ap);
  vk_log("!! VIOLATION %s/%s: %s", prop, clause, msg);
  for (int i = 0; i < S->nviol; i++)
    if (!strcmp(S->viol[i].prop, prop) && !strcmp(S->viol[i].clause, clause)) return;
  if (S->nviol >= VK_MAX_VIOL) return;
  struct vk_violation *v = &S->viol[S->nviol++];
  snprintf(v->prop, sizeof v->prop, "%s", prop);
  snprintf(v->clause, sizeof v->clause, "%s", clause);
  snprintf(v->key, sizeof v->key, "%s|clause=%s", key ? key : S->cfgdesc, clause);
  snprintf(v->msg, sizeof v->msg, "%s", msg);
}

void vk_set_hang_hook(void (*fn)(const char *where))
{
  hang_hook = fn;
}

void vk_kill_children(void)
{
  for (int i = 0; i < vk_nchildren; i++) {
    struct vk_child *c = &vk_children[i];
    if (c->pid > 0 && c->state != CH_REAPED) {
      kill(c->pid, SIGKILL);
      waitpid(c->pid, NULL, 0);
      c->state = CH_REAPED;
    }
  }
}

void vk_finish(int outcome, const char *fmt, ...)
{
  va_list ap;
  va_start(ap, fmt);
  vsnprintf(S->outcome_msg, sizeof S->outcome_msg, fmt, ap);
  va_end(ap);
  if (vk_side != 0) {
    /* never finish an execution from the forked side */
    _exit(99);
  }
  S->outcome = outcome;
  vk_log("== outcome %d %s", outcome, S->outcome_msg);
  vk_kill_children();
  _exit(0);
}

static void infra(const char *fmt, ...) __attribute__((noreturn, format(printf, 1, 2)));
static void infra(const char *fmt, ...)
{
  char b[256];
  va_list ap;
  va_start(ap, fmt);
  vsnprintf(b, sizeof b, fmt, ap);
  va_end(ap);
  if (vk_side != 0) {
    vk_log("INFRA on forked side: %s", b);
    _exit(95);
  }
  vk_finish(OUT_INFRA, "%s", b);
}

static void hang(const char *where) __attribute__((noreturn));
static void hang(const char *where)
{
  vk_log("== HANG at %s (api #%d)", where, vk_api_seq);
  if (hang_hook) hang_hook(where);
  vk_finish(OUT_HANG, "%s", where);
}

/* ---------------------------------------------------------------- choices */

int vk_choose(int kind, int n, int cost, const char *label)
{
  if (n <= 1) return 0;
  if (vk_cfg.passthru) return 0;
  if (n > 255) n = 255;
  int idx = S->ntrace;
  if (idx >= VK_MAX_TRACE) {
    S->trace_overflow = 1;
    return 0;
  }
  int c = 0;
  if (idx < S->prefix_len) {
    c = S->prefix[idx];
    if (c >= n) {
      S->diverged = 1;
      infra("replay divergence at point %d (%s): choice %d of %d", idx, label, c, n);
    }
  }
  struct vk_choice *t = &S->trace[idx];
  t->kind = (uint8_t) kind;
  t->n = (uint8_t) n;
  t->chosen = (uint8_t) c;
  t->cost = (uint8_t) cost;
  snprintf(t->label, sizeof t->label, "%s", label);
  S->ntrace = idx + 1;
  if (c) {
    S->used[kind] += cost ? 1 : 0;
    static const char *const kn[] = { "SCHED", "BLOCK", "FAULT", "TIME", "OP" };
    vk_log("  choice[%d] %s %s -> %d/%d", idx, kn[kind], label, c, n);
  }
  return c;
}

/* ---------------------------------------------------------------- clock */

int64_t vk_now(void)
{
  if (vk_cfg.passthru) {
    struct timespec ts;
    clock_gettime(CLOCK_REALTIME, &ts);
    return (int64_t) ts.tv_sec * 1000 + ts.tv_nsec / 1000000;
  }
  return S->clock_ms;
}

void vk_advance(int ms)
{
  if (vk_cfg.passthru) {
    struct timespec ts = { ms / 1000, (long) (ms % 1000) * 1000000 };
    nanosleep(&ts, NULL);
    return;
  }
  S->clock_ms += ms;
}

/* ---------------------------------------------------------------- events */

static struct vk_event dummy_event;

__thread int vk_calls_in_api;
static void hang(const char *where) __attribute__((noreturn));

static struct vk_event *ev_new(int call, long a0, long a1, long a2)
{
  /* a library call that keeps issuing system calls without ever blocking or returning is a livelock (busy wait) */
  if (vk_side == 0 && vk_api_seq && ++vk_calls_in_api > 20000) {
    vk_calls_in_api = 0;
    char w[40];
    snprintf(w, sizeof w, "livelock:%s", vk_call_names[call]);
    hang(w);
  }
  if (S->nevents >= VK_MAX_EVENTS) return &dummy_event;
  struct vk_event *e = &S->ev[S->nevents++];
  memset(e, 0, sizeof *e);
  e->api = vk_api_seq;
  e->call = (int16_t) call;
  e->side = (int16_t) (vk_side ? 1 : 0);
  e->t = S->clock_ms;
  e->a0 = a0;
  e->a1 = a1;
  e->a2 = a2;
  return e;
}

static long *thr_progress_ptr;

static void ev_done(struct vk_event *e, long ret, int err)
{
  if (thr_progress_ptr && e->side == 0 && e->call != C_MALLOC && e->call != C_CALLOC && e->call != C_REALLOC && e->call != C_FREE && e->call != C_STRDUP && e->call != C_CLOCK) (*thr_progress_ptr)++;
  e->ret = ret;
  e->err = ret < 0 ? err : 0;
  if (e->call == C_MALLOC || e->call == C_CALLOC || e->call == C_REALLOC || e->call == C_FREE || e->call == C_STRDUP) return;
  if (!S->verbose) return;
  vk_log("    %s%s(%ld,%ld,%ld) = %ld%s%s t=%lld%s", e->side ? "[child] " : "", vk_call_names[e->call], e->a0, e->a1,
         e->a2, ret, ret < 0 ? " errno=" : "", ret < 0 ? strerror(err) : "", (long long) S->clock_ms,
         e->injected ? " (injected)" : "");
}

int vk_count_calls(int api, int call)
{
  int n = 0;
  for (int i = 0; i < S->nevents; i++) {
    struct vk_event *e = &S->ev[i];
    if (e->api != api || e->side != 0) continue;
    if (call) {
      if (e->call == call) n++;
    } else if (e->call == C_POLL || e->call == C_WAITPID || e->call == C_KILL || e->call == C_READ ||
               e->call == C_WRITE || e->call == C_FORK || e->call == C_PIPE || e->call == C_OPEN ||
               e->call == C_CLOSE) {
      n++;
    }
  }
  return n;
}

struct vk_event *vk_last_event(int api, int call)
{
  for (int i = S->nevents - 1; i >= 0; i--) {
    struct vk_event *e = &S->ev[i];
    if (e->api == api && e->call == call && e->side == 0) return e;
  }
  return NULL;
}

int vk_api_begin(const char *fmt, ...)
{
  char b[400];
  va_list ap;
  va_start(ap, fmt);
  vsnprintf(b, sizeof b, fmt, ap);
  va_end(ap);
  vk_api_seq = ++api_counter;
  vk_calls_in_api = 0;
  vk_log("api #%d %s  t=%lld", vk_api_seq, b, (long long) S->clock_ms);
  return vk_api_seq;
}

void vk_api_end(long r)
{
  vk_log("api #%d -> %ld  t=%lld", vk_api_seq, r, (long long) S->clock_ms);
  vk_api_seq = 0;
}

/* ---------------------------------------------------------------- fd ledger */

enum { FD_NONE = 0, FD_LIB_OPEN, FD_LIB_CLOSED };
static struct {
  uint8_t st;
  uint8_t origin;
} fdl[HARNESS_FD_BASE];

static void fdl_open(int fd, int origin)
{
  if (vk_side != 0) return;
  if (fd >= 0 && fd < HARNESS_FD_BASE) {
    fdl[fd].st = FD_LIB_OPEN;
    fdl[fd].origin = (uint8_t) origin;
  }
}

int vk_lib_owns_fd(int fd)
{
  return fd >= 0 && fd < HARNESS_FD_BASE && fdl[fd].st == FD_LIB_OPEN;
}

int vk_fd_ledger_open_count(void)
{
  int n = 0;
  for (int i = 0; i < HARNESS_FD_BASE; i++) n += fdl[i].st == FD_LIB_OPEN;
  return n;
}

void vk_fd_snapshot(struct vk_fdsnap *s)
{
  s->n = 0;
  DIR *d = opendir("/proc/self/fd");
  if (!d) return;
  int dfd = dirfd(d);
  struct dirent *e;
  while ((e = readdir(d))) {
    if (e->d_name[0] < '0' || e->d_name[0] > '9') continue;
    int fd = atoi(e->d_name);
    if (fd == dfd || fd >= HARNESS_FD_BASE) continue;
    struct stat st;
    if (fstat(fd, &st) < 0) continue;
    if (s->n < 128) {
      s->e[s->n].fd = fd;
      s->e[s->n].dev = st.st_dev;
      s->e[s->n].ino = st.st_ino;
      s->n++;
    }
  }
  closedir(d);
  /* sort by fd */
  for (int i = 1; i < s->n; i++)
    for (int j = i; j > 0 && s->e[j - 1].fd > s->e[j].fd; j--) {
      __typeof__(s->e[0]) t = s->e[j];
      s->e[j] = s->e[j - 1];
      s->e[j - 1] = t;
    }
}

int vk_fd_snapshot_equal(const struct vk_fdsnap *a, const struct vk_fdsnap *b, char *diff, size_t n)
{
  int eq = 1;
  size_t o = 0;
  if (n) diff[0] = 0;
  int i = 0, j = 0;
  while (i < a->n || j < b->n) {
    if (i < a->n && j < b->n && a->e[i].fd == b->e[j].fd) {
      if (a->e[i].ino != b->e[j].ino || a->e[i].dev != b->e[j].dev) {
        eq = 0;
        o += (size_t) snprintf(diff + o, o < n ? n - o : 0, "fd %d now refers to another object; ", a->e[i].fd);
      }
      i++, j++;
    } else if (j >= b->n || (i < a->n && a->e[i].fd < b->e[j].fd)) {
      eq = 0;
      o += (size_t) snprintf(diff + o, o < n ? n - o : 0, "fd %d is gone; ", a->e[i].fd);
      i++;
    } else {
      eq = 0;
      o += (size_t) snprintf(diff + o, o < n ? n - o : 0, "fd %d leaked; ", b->e[j].fd);
      j++;
    }
    if (o >= n) o = n ? n - 1 : 0;
  }
  return eq;
}

int vk_high_fd(int fd)
{
  if (fd < 0) return fd;
  int h = fcntl(fd, F_DUPFD_CLOEXEC, HARNESS_FD_BASE);
  if (h < 0) infra("cannot move descriptor above %d: %s", HARNESS_FD_BASE, strerror(errno));
  close(fd);
  return h;
}

/* ---------------------------------------------------------------- heap ledger */

#define HEAP_CAP 8192
static struct {
  void *p;
  size_t n;
} heap[HEAP_CAP];
static int heap_live;
static size_t heap_bytes;

static int heap_find(void *p)
{
  size_t h = ((uintptr_t) p >> 4) % HEAP_CAP;
  for (int k = 0; k < HEAP_CAP; k++) {
    size_t i = (h + (size_t) k) % HEAP_CAP;
    if (heap[i].p == p) return (int) i;
    if (heap[i].p == NULL) return -1;
  }
  return -1;
}

static void heap_add(void *p, size_t n)
{
  if (!p || vk_side != 0) return;
  size_t h = ((uintptr_t) p >> 4) % HEAP_CAP;
  for (int k = 0; k < HEAP_CAP; k++) {
    size_t i = (h + (size_t) k) % HEAP_CAP;
    if (heap[i].p == NULL || heap[i].p == (void *) 1) {
      heap[i].p = p;
      heap[i].n = n;
      heap_live++;
      heap_bytes += n;
      return;
    }
  }
}

static int heap_del(void *p)
{
  int i = heap_find(p);
  if (i < 0) return 0;
  heap[i].p = (void *) 1; /* tombstone */
  heap_live--;
  heap_bytes -= heap[i].n;
  return 1;
}

int vk_heap_live_count(void) { return heap_live; }
size_t vk_heap_live_bytes(void) { return heap_bytes; }

/* ---------------------------------------------------------------- faults */

struct fault_menu {
  int n;
  int err[4];
};
static const struct fault_menu fault_menus[C_NCALLS] = {
  [C_PIPE] = { 2, { EMFILE, ENFILE } },
  [C_CLOSE] = { 2, { EINTR, EIO } },
  [C_READ] = { 1, { EINTR } },
  [C_WRITE] = { 1, { EINTR } },
  [C_POLL] = { 2, { EINTR, ENOMEM } },
  [C_FORK] = { 2, { EAGAIN, ENOMEM } },
  [C_WAITPID] = { 1, { EINTR } }, /* ECHILD for an own, unreaped child needs SIGCHLD ignored: outside every property here */
  [C_KILL] = { 2, { ESRCH, EPERM } },
  [C_OPEN] = { 3, { ENOENT, EACCES, EMFILE } },
  [C_DUP2] = { 3, { EBADF, EMFILE, EINTR } },
  [C_DUP] = { 1, { EMFILE } },
  [C_FCNTL] = { 2, { EBADF, EIO } }, /* EIO: not an answer Linux gives for the commands used here; kept as insurance against code that reads every failure as "closed" */
  [C_CHDIR] = { 2, { ENOENT, ENOTDIR } },
  [C_EXEC] = { 3, { ENOENT, EACCES, E2BIG } },
  [C_GETCWD] = { 3, { ENOENT, EACCES, ERANGE } }, /* ERANGE: "buffer too small", as with a longer directory: the caller is expected to retry */
  [C_GETRLIMIT] = { 3, { EINVAL, -1 /* RLIM_INFINITY */, -2 /* > 1 Mi */ } },
  [C_FILENO] = { 1, { EBADF } },
  [C_MALLOC] = { 1, { ENOMEM } },
  [C_CALLOC] = { 1, { ENOMEM } },
  [C_REALLOC] = { 1, { ENOMEM } },
  [C_STRDUP] = { 1, { ENOMEM } },
  [C_SIGMASK] = { 1, { EINVAL } },
  [C_SIGACTION] = { 1, { EFAULT } },
  [C_SIGSET] = { 1, { EINVAL } },
  [C_CLOSE_RANGE] = { 1, { ENOSYS } }, /* older kernels, sandboxes that answer unknown system calls with ENOSYS */
};

static int budget_left(int kind, int bound)
{
  if (S->used[kind] >= bound) return 0;
  if (vk_cfg.total_bound > 0 && S->used[K_SCHED] + S->used[K_FAULT] + S->used[K_TIME] >= vk_cfg.total_bound) return 0;
  return 1;
}

static int forced_call, forced_err;
void vk_force_fault(int call, int err) { forced_call = call; forced_err = err; }

/* returns 0 = real answer, else the injected errno (or negative shape id) */
static int fault(int call)
{
  if (forced_call && forced_call == call && vk_side == 0) {
    forced_call = 0;
    return forced_err;
  }
  if (!vk_cfg.faults_on || !vk_faults_armed || vk_cfg.passthru) return 0;
  if (vk_side == 2) return 0;
  if (!budget_left(K_FAULT, vk_cfg.fault_bound)) return 0;
  if (vk_cfg.fault_calls && !(vk_cfg.fault_calls & (1ull << call))) return 0;
  const struct fault_menu *m = &fault_menus[call];
  static const struct fault_menu waitpid_foreign = { 2, { EINTR, ECHILD } };
  if (call == C_WAITPID && vk_cfg.foreign_reaper) m = &waitpid_foreign;
  if (m->n == 0) return 0;
  char label[12];
  snprintf(label, sizeof label, "%s%s", vk_side ? "c:" : "", vk_call_names[call]);
  int c = vk_choose(K_FAULT, 1 + m->n, 1, label);
  if (!c) return 0;
  return m->err[c - 1];
}

/* ---------------------------------------------------------------- children */

static void xsend(int fd, const void *p, size_t n)
{
  const char *c = p;
  while (n) {
    ssize_t w = send(fd, c, n, MSG_NOSIGNAL);
    if (w < 0) {
      if (errno == EINTR) continue;
      return; /* the peer is gone; the next receive notices */
    }
    c += w;
    n -= (size_t) w;
  }
}

/* 1 ok, 0 EOF */
static int xrecv(int fd, void *p, size_t n)
{
  char *c = p;
  while (n) {
    ssize_t r = recv(fd, c, n, 0);
    if (r < 0) {
      if (errno == EINTR) continue;
      if (errno == EAGAIN) infra("helper did not answer within the watchdog time");
      return 0;
    }
    if (r == 0) return 0;
    c += r;
    n -= (size_t) r;
  }
  return 1;
}

static uint32_t g32(char **p) { uint32_t v; memcpy(&v, *p, 4); *p += 4; return v; }
static uint64_t g64(char **p) { uint64_t v; memcpy(&v, *p, 8); *p += 8; return v; }
static char *gstr(char **p)
{
  uint32_t n = g32(p);
  char *s = malloc(n + 1);
  memcpy(s, *p, n);
  s[n] = 0;
  *p += n;
  return s;
}

static void parse_hello(struct vk_hello *h, char *buf)
{
  char *p = buf;
  h->pid = (int) g32(&p);
  h->image = (int) g32(&p);
  h->argc = (int) g32(&p);
  h->argv = calloc((size_t) h->argc + 1, sizeof(char *));
  for (int i = 0; i < h->argc; i++) h->argv[i] = gstr(&p);
  h->envc = (int) g32(&p);
  h->envp = calloc((size_t) h->envc + 1, sizeof(char *));
  for (int i = 0; i < h->envc; i++) h->envp[i] = gstr(&p);
  h->cwd = gstr(&p);
  h->blk = g64(&p);
  h->ign = g64(&p);
  h->cgt = g64(&p);
  h->nfd = (int) g32(&p);
  h->fds = calloc((size_t) h->nfd + 1, sizeof *h->fds);
  memcpy(h->fds, p, (size_t) h->nfd * sizeof *h->fds);
}

static void wait_zombie(struct vk_child *c)
{
  siginfo_t si;
  memset(&si, 0, sizeof si);
  int r;
  do r = waitid(P_PID, (id_t) c->pid, &si, WEXITED | WNOWAIT); while (r < 0 && errno == EINTR);
  if (r < 0) infra("waitid(%d): %s", c->pid, strerror(errno));
  if (c->state != CH_REAPED) c->state = CH_ZOMBIE;
  c->exit_time = S->clock_ms;
}

static int is_zombie(int pid)
{
  siginfo_t si;
  memset(&si, 0, sizeof si);
  int r = waitid(P_PID, (id_t) pid, &si, WEXITED | WNOWAIT | WNOHANG);
  return r == 0 && si.si_pid == pid;
}

static void parse_script(struct vk_child *c, const char *s)
{
  c->nsteps = 0;
  c->nsetup = 0;
  while (*s) {
    while (*s == ' ') s++;
    if (!*s) break;
    if (*s == ';') {
      c->nsetup = c->nsteps;
      s++;
      continue;
    }
    if (c->nsteps >= VK_MAX_STEPS) infra("script too long");
    struct vk_step *st = &c->steps[c->nsteps++];
    memset(st, 0, sizeof *st);
    st->op = *s++;
    switch (st->op) {
      case 'W':
        st->a = (int) strtol(s, (char **) &s, 10);
        if (*s == ':') s++;
        st->b = (int) strtol(s, (char **) &s, 10);
        break;
      case 'R':
        if (*s == 'E') { st->a = -1; s++; }
        else st->a = (int) strtol(s, (char **) &s, 10);
        break;
      case 'S':
        st->a = (int) strtol(s, (char **) &s, 10);
        if (*s == ':') s++;
        st->b = *s++;
        break;
      case 'E':
        break;
      default: /* C D X K T */
        st->a = (int) strtol(s, (char **) &s, 10);
    }
  }
}

void vk_script(const char *script)
{
  if (n_pending_scripts >= VK_MAX_CHILDREN) infra("too many scripts");
  snprintf(pending_scripts[n_pending_scripts++], 256, "%s", script);
}

struct vk_child *vk_child_by_pid(int pid)
{
  for (int i = 0; i < vk_nchildren; i++)
    if (vk_children[i].pid == pid) return &vk_children[i];
  return NULL;
}

/* receive the next message from a child that is executing on its own (library
 * code on the forked side, or exec in progress). */
static void child_next_message(struct vk_child *c)
{
  struct vc_rep r;
  if (!xrecv(c->ctl, &r, sizeof r)) {
    /* died before saying anything: pre-exec failure, crash, or a foreign program */
    c->state = CH_DEAD_PREHELLO;
    wait_zombie(c);
    c->state = CH_DEAD_PREHELLO;
    vk_log("  child %d (pid %d) ended before hello", c->idx, c->pid);
    return;
  }
  if (r.st == ST_LIBSTEP) {
    c->state = CH_LIBPEND;
    return;
  }
  if (r.st != ST_HELLO) infra("unexpected message %d from child %d", r.st, c->idx);
  char *buf = malloc((size_t) r.n + 16);
  if (!xrecv(c->ctl, buf, (size_t) r.n)) infra("short hello");
  parse_hello(&c->hello, buf);
  free(buf);
  c->have_hello = 1;
  c->state = CH_RUNNING;
  for (int s = 1; s < 64; s++) c->disp[s] = (c->hello.ign >> s) & 1 ? 'I' : (c->hello.cgt >> s) & 1 ? 'H' : 'D';
  c->disp[64] = 'D';
  vk_log("  child %d hello pid=%d image=%d argc=%d nfd=%d", c->idx, c->hello.pid, c->hello.image, c->hello.argc,
         c->hello.nfd);
  /* setup steps run at once */
  while (c->pos < c->nsetup && c->state == CH_RUNNING) vk_child_step(c);
  if (vk_cfg.passthru && c->state == CH_RUNNING) {
    /* free-running validation: the helper gets the rest of its script and runs it by itself, one step every gap ms */
    int n = c->nsteps - c->pos;
    struct vc_cmd hdr = { 'A', vk_autonomous_gap_ms, n };
    xsend(c->ctl, &hdr, sizeof hdr);
    for (int i = c->pos; i < c->nsteps; i++) {
      struct vc_cmd st = { c->steps[i].op, c->steps[i].a, c->steps[i].b };
      xsend(c->ctl, &st, sizeof st);
      if (st.op == 'X') c->expect_status = st.a & 0xff;
      if (st.op == 'K' || st.op == 'T') c->expect_status = 128 + st.a;
      if (st.op == 'C' && st.a >= 0 && st.a < 3) c->closed_fd[st.a] = 1; /* will be closed; only used after the fact */
    }
    struct vc_rep ack;
    if (!xrecv(c->ctl, &ack, sizeof ack)) infra("helper did not take its script");
    c->autonomous = 1;
    c->pos = c->nsteps;
  }
}

static int default_action_terminates(int sig)
{
  switch (sig) {
    case SIGCHLD: case SIGCONT: case SIGURG: case SIGWINCH:
    case SIGSTOP: case SIGTSTP: case SIGTTIN: case SIGTTOU:
      return 0;
  }
  return 1;
}

int vk_autonomous_gap_ms = 400;
static int deliver_signal(struct vk_child *c, int sig);

int vk_child_enabled(struct vk_child *c)
{
  if (c->autonomous) return 0;
  if (c->pending_sig && c->state == CH_RUNNING) return 1;
  if (c->state == CH_LIBPEND) return 1;
  if (c->state != CH_RUNNING) return 0;
  if (c->pos >= c->nsteps) return 0;
  struct vk_step *st = &c->steps[c->pos];
  switch (st->op) {
    case 'C': case 'D': case 'X': case 'K': case 'S': case 'Z':
      return 1;
    case 'T':
      return c->handled[st->a] > 0;
  }
  struct vc_cmd cmd = { st->op | 0x100, st->a, st->op == 'W' ? st->b - st->done : st->b };
  xsend(c->ctl, &cmd, sizeof cmd);
  struct vc_rep r;
  if (!xrecv(c->ctl, &r, sizeof r)) infra("child %d vanished during probe", c->idx);
  return r.st == ST_READY;
}

static void child_in_append(struct vk_child *c, const char *d, size_t n)
{
  if (c->in_n + n > c->in_cap) {
    size_t nc = c->in_cap ? c->in_cap * 2 : 4096;
    while (nc < c->in_n + n) nc *= 2;
    c->in_data = realloc(c->in_data, nc);
    c->in_cap = nc;
  }
  memcpy(c->in_data + c->in_n, d, n);
  c->in_n += n;
}

static void note_write(struct vk_child *c, int fd, uint32_t n)
{
  if (fd < 0 || fd > 2 || n == 0) return;
  c->wrote[fd] += n;
  if (c->nworder > 0 && c->worder[c->nworder - 1].fd == fd) c->worder[c->nworder - 1].n += n;
  else if (c->nworder < 64) {
    c->worder[c->nworder].fd = fd;
    c->worder[c->nworder].n = n;
    c->nworder++;
  }
}

void vk_autonomous_collect(struct vk_child *c)
{
  if (!c->autonomous) return;
  for (;;) {
    struct vc_rep r;
    if (!xrecv(c->ctl, &r, sizeof r)) break; /* ended without a report (killed by a signal of the library) */
    if (r.st == ST_SIG) { c->handled[r.n]++; continue; }
    if (r.st != ST_DATA || r.n < 16) break;
    uint32_t hdr[4];
    if (!xrecv(c->ctl, hdr, sizeof hdr)) break;
    c->wrote[1] = hdr[0];
    c->wrote[2] = hdr[1];
    c->in_eof = (int) hdr[2];
    c->echoed = hdr[3];
    size_t n = (size_t) r.n - 16;
    char *d = malloc(n + 1);
    if (n && !xrecv(c->ctl, d, n)) { free(d); break; }
    c->in_n = 0;
    child_in_append(c, d, n);
    free(d);
    break;
  }
  c->autonomous = 2;
}

int vk_child_step(struct vk_child *c)
{
  if (c->autonomous) return 0;
  if (c->pending_sig && c->state == CH_RUNNING) {
    int sig = c->pending_sig;
    c->pending_sig = 0;
    vk_log("  [child %d] the signal %d sent earlier takes effect now", c->idx, sig);
    deliver_signal(c, sig);
    return 1;
  }
  if (c->state == CH_LIBPEND) {
    struct vc_cmd go = { 'G', 0, 0 };
    c->state = CH_LIBRUN;
    vk_log("  [child %d] library step on the forked side", c->idx);
    xsend(c->ctl, &go, sizeof go);
    child_next_message(c);
    return 1;
  }
  if (c->state != CH_RUNNING || c->pos >= c->nsteps) return 0;
  struct vk_step *st = &c->steps[c->pos];
  int op = st->op;
  if (op == 'T') op = 'K';
  struct vc_cmd cmd = { op, st->a, st->op == 'W' ? st->b - st->done : st->b };
  xsend(c->ctl, &cmd, sizeof cmd);
  if (op == 'X' || op == 'K') {
    c->expect_status = op == 'X' ? (st->a & 0xff) : 128 + st->a;
    c->ended_by = 0;
    c->pos++;
    wait_zombie(c);
    vk_log("  [child %d] %c%d -> zombie, t=%lld", c->idx, st->op, st->a, (long long) S->clock_ms);
    return 1;
  }
  struct vc_rep r;
  if (!xrecv(c->ctl, &r, sizeof r)) infra("child %d vanished during step %c", c->idx, st->op);
  int happened = 1;
  if (st->op == 'E' && (r.st == ST_PROGRESS || r.st == ST_EOF || r.st == ST_BLOCKED)) c->echoed = (uint32_t) r.n;
  switch (r.st) {
    case ST_DONE:
      if (st->op == 'C' && st->a >= 0 && st->a < 3) c->closed_fd[st->a] = 1;
      if (st->op == 'Z') c->closed_fd[0] = c->closed_fd[1] = c->closed_fd[2] = 1;
      if (st->op == 'W') note_write(c, st->a, (uint32_t) (st->b - st->done));
      if (st->op == 'S') c->disp[st->a] = (char) st->b;
      c->pos++;
      break;
    case ST_PROGRESS:
      if (st->op == 'W') {
        note_write(c, st->a, (uint32_t) r.n);
        st->done += r.n;
      }
      break;
    case ST_BLOCKED:
      happened = 0;
      break;
    case ST_EOF:
      if (st->op == 'R') c->in_eof = 1;
      c->pos++;
      break;
    case ST_ERR:
      if (st->op == 'W' && st->a >= 0 && st->a < 3) c->werr[st->a] = r.n;
      c->pos++;
      break;
    case ST_DATA: {
      char *d = malloc((size_t) r.n + 1);
      if (!xrecv(c->ctl, d, (size_t) r.n)) infra("short data");
      child_in_append(c, d, (size_t) r.n);
      free(d);
      st->done += r.n;
      if (st->a >= 0 && st->done >= st->a) c->pos++;
      break;
    }
    default:
      infra("unexpected reply %d to step %c", r.st, st->op);
  }
  vk_log("  [child %d] step %c %d:%d -> st=%d n=%d%s", c->idx, st->op, st->a, st->b, r.st, r.n,
         happened ? "" : " (no progress)");
  return happened;
}

static int enabled_children(struct vk_child **out)
{
  int n = 0;
  for (int i = 0; i < vk_nchildren; i++)
    if (vk_child_enabled(&vk_children[i])) out[n++] = &vk_children[i];
  return n;
}

/* ---------------------------------------------------------------- cooperative threads */
#include <pthread.h>
#include <semaphore.h>

int vk_threads_on;
struct vk_thread {
  pthread_t th;
  sem_t go;
  int used, done, blocked, joining;
  long blocked_progress;
  void *(*fn)(void *);
  void *arg;
};
static struct vk_thread thr[VK_MAX_THREADS];
static int nthr = 1, cur_thr;
static long thr_progress;
__attribute__((constructor)) static void thr_init(void) { thr_progress_ptr = &thr_progress; }
static __thread int my_thr;

int vk_thread_self(void) { return my_thr; }

static int thr_eligible(int j)
{
  if (j == cur_thr || j >= nthr || !thr[j].used || thr[j].done) return 0;
  if (thr[j].blocked && thr[j].blocked_progress == thr_progress) return 0;
  if (thr[j].joining >= 0 && !thr[thr[j].joining].done) return 0;
  return 1;
}

static int eligible_threads(int *out)
{
  int n = 0;
  if (!vk_threads_on) return 0;
  for (int j = 0; j < nthr; j++)
    if (thr_eligible(j)) out[n++] = j;
  return n;
}

static void thr_switch(int j)
{
  int me = cur_thr;
  cur_thr = j;
  vk_log("  -- switch thread %d -> %d", me, j);
  sem_post(&thr[j].go);
  sem_wait(&thr[me].go);
}

static void *thr_trampoline(void *a)
{
  int idx = (int) (intptr_t) a;
  my_thr = idx;
  sem_wait(&thr[idx].go);
  thr[idx].fn(thr[idx].arg);
  /* finished: hand the processor to someone who can use it */
  thr[idx].done = 1;
  thr_progress++;
  int el[VK_MAX_THREADS];
  int n = eligible_threads(el);
  if (n == 0) {
    /* everybody else is blocked or joining: let the first thread that is waiting for anything re-check */
    for (int j = 0; j < nthr; j++)
      if (j != idx && thr[j].used && !thr[j].done) { el[n++] = j; break; }
  }
  if (n) {
    int c = n > 1 ? vk_choose(K_BLOCK, n, 0, "thr-exit") : 0;
    cur_thr = el[c];
    vk_log("  -- thread %d finished, thread %d runs", idx, el[c]);
    sem_post(&thr[el[c]].go);
  }
  return NULL;
}

int vk_thread_create(void *(*fn)(void *), void *arg)
{
  if (!thr[0].used) {
    thr[0].used = 1;
    thr[0].joining = -1;
    sem_init(&thr[0].go, 0, 0);
  }
  if (nthr >= VK_MAX_THREADS) infra("too many threads");
  int idx = nthr++;
  memset(&thr[idx], 0, sizeof thr[idx]);
  thr[idx].used = 1;
  thr[idx].joining = -1;
  thr[idx].fn = fn;
  thr[idx].arg = arg;
  sem_init(&thr[idx].go, 0, 0);
  vk_threads_on = 1;
  if (pthread_create(&thr[idx].th, NULL, thr_trampoline, (void *) (intptr_t) idx)) infra("pthread_create failed");
  return idx;
}

void vk_thread_join(int idx)
{
  int me = my_thr;
  while (!thr[idx].done) {
    thr[me].joining = idx;
    int el[VK_MAX_THREADS];
    int n = eligible_threads(el);
    struct vk_child *en[VK_MAX_CHILDREN];
    int nc = enabled_children(en);
    if (n + nc == 0) {
      /* threads that blocked earlier may be able to go on now */
      thr_progress++;
      n = eligible_threads(el);
      if (!n) hang("join");
    }
    int c = n + nc > 1 ? vk_choose(K_BLOCK, n + nc, 0, "join") : 0;
    if (c < n) thr_switch(el[c]);
    else { vk_child_step(en[c - n]); thr_progress++; }
  }
  thr[me].joining = -1;
  pthread_join(thr[idx].th, NULL);
}

/* scheduling point before a call whose effect the child (or another thread) can observe or that observes them */
int vk_sched_point(const char *label)
{
  if (vk_side != 0 || !vk_cfg.sched_on || vk_cfg.passthru) return 0;
  int steps = 0;
  while (budget_left(K_SCHED, vk_cfg.sched_bound)) {
    struct vk_child *en[VK_MAX_CHILDREN];
    int n = enabled_children(en);
    int el[VK_MAX_THREADS];
    int nt = eligible_threads(el);
    if (!n && !nt) break;
    int c = vk_choose(K_SCHED, 1 + n + nt, 1, label);
    if (!c) break;
    if (c <= n) { vk_child_step(en[c - 1]); thr_progress++; }
    else thr_switch(el[c - 1 - n]); /* a preemption: this thread could have continued */
    steps++;
  }
  return steps;
}

/* the calling library code is blocked: pick what happens. Returns the elapsed virtual ms,
 * or -1 if the OS timeout expired (timeout_ms >= 0 only). */
static int blocked(struct vk_event *e, const char *where, int timeout_ms)
{
  e->blocked++;
  struct vk_child *en[VK_MAX_CHILDREN];
  int n = enabled_children(en);
  int menu[8], nm = 0;
  if (timeout_ms < 0) {
    for (int i = 0; i < vk_cfg.elapsed_inf_n && i < 4; i++) menu[nm++] = vk_cfg.elapsed_inf[i];
    if (!nm) menu[nm++] = 0;
  } else if (timeout_ms <= 4) {
    for (int i = 0; i < timeout_ms; i++) menu[nm++] = i;
  } else {
    menu[nm++] = 0;
    menu[nm++] = 1;
    menu[nm++] = timeout_ms - 1;
  }
  /* a signal handled by the caller may interrupt a blocked poll after any of the same elapsed times (a fault: costs 1) */
  if (!strcmp(where, "poll") && vk_cfg.faults_on && vk_faults_armed && budget_left(K_FAULT, vk_cfg.fault_bound) &&
      (!vk_cfg.fault_calls || (vk_cfg.fault_calls & (1ull << C_POLL)))) {
    int c = vk_choose(K_FAULT, 1 + nm, 1, "poll-intr");
    if (c) {
      int el = menu[c - 1];
      S->clock_ms += el;
      e->blocked_ms += el;
      e->injected = EINTR;
      vk_log("    (%s interrupted by a signal after %d ms, t=%lld)", where, el, (long long) S->clock_ms);
      return -2;
    }
  }
  int elt[VK_MAX_THREADS];
  int nt = eligible_threads(elt);
  if (nt) {
    /* this thread cannot go on: letting another one run is not a preemption. The alternatives are the other threads
     * first, then (below) the child's steps; with threads the elapsed-time menu is not combined (the harnesses that use
     * threads do not use timeouts). */
    int total = nt + n + (timeout_ms >= 0 ? 1 : 0);
    int c2 = total > 1 ? vk_choose(K_BLOCK, total, 0, where) : 0;
    if (c2 < nt) {
      thr[my_thr].blocked = 1;
      thr[my_thr].blocked_progress = thr_progress;
      thr_switch(elt[c2]);
      thr[my_thr].blocked = 0;
      e->woke_child = 0;
      return 0;
    }
    c2 -= nt;
    if (c2 < n) { e->woke_child = en[c2]->idx + 1; vk_child_step(en[c2]); thr_progress++; return 0; }
    S->clock_ms += timeout_ms;
    e->blocked_ms += timeout_ms;
    return -1;
  }
  int nalt = n * nm + (timeout_ms >= 0 ? 1 : 0);
  if (nalt == 0) {
    if (vk_threads_on) {
      /* nobody is eligible right now: maybe a thread that blocked earlier can go on after what happened since */
      int any = 0;
      for (int j = 0; j < nthr; j++)
        if (j != cur_thr && thr[j].used && !thr[j].done && thr[j].blocked && thr[j].blocked_progress != thr_progress) any = 1;
      (void) any;
    }
    hang(where);
  }
  int c = vk_choose(K_BLOCK, nalt, 0, where);
  if (timeout_ms >= 0) {
    if (c == 0) {
      S->clock_ms += timeout_ms;
      e->blocked_ms += timeout_ms;
      e->woke_child = 0;
      vk_log("    (%s: timeout of %d ms expired, t=%lld)", where, timeout_ms, (long long) S->clock_ms);
      return -1;
    }
    c--;
  }
  struct vk_child *ch = en[c / nm];
  int el = menu[c % nm];
  S->clock_ms += el;
  e->blocked_ms += el;
  e->woke_child = ch->idx + 1;
  vk_log("    (%s blocked; after %d ms child %d moves, t=%lld)", where, el, ch->idx, (long long) S->clock_ms);
  vk_child_step(ch);
  return el;
}

/* ---------------------------------------------------------------- exec-process init */

static int ctl_sv[2];

void vk_exec_init(void)
{
  struct rlimit rl;
  if (getrlimit(RLIMIT_NOFILE, &rl) == 0 && rl.rlim_cur < 4096) {
    rl.rlim_cur = rl.rlim_max < 4096 ? rl.rlim_max : 4096;
    setrlimit(RLIMIT_NOFILE, &rl);
  }
  signal(SIGPIPE, SIG_IGN);
  S->clock_ms = 1700000000000ll; /* fixed epoch */
  vk_environ = NULL;
  memset(fdl, 0, sizeof fdl);
  memset(heap, 0, sizeof heap);
  heap_live = 0;
  heap_bytes = 0;
  vk_nchildren = 0;
  n_pending_scripts = next_script = 0;
  api_counter = 0;
  vk_api_seq = 0;
  vk_side = 0;
  if (S->force_passthru) {
    vk_cfg.passthru = 1;
    vk_cfg.sched_on = 0;
    vk_cfg.faults_on = 0;
    vk_cfg.time_on = 0;
  }
  if (!vk_cfg.elapsed_inf_n) {
    vk_cfg.elapsed_inf_n = 1;
    vk_cfg.elapsed_inf[0] = 0;
  }
  if (!vk_cfg.time_jump) vk_cfg.time_jump = 10;
}

/* ================================================================ wrappers */

#define SIDE_PARENT (vk_side == 0)

int vk_dry_hits;

/* dry mode 1: the first resource-creating call is itself a violation and ends the execution;
 * dry mode 2: such calls are counted, not executed, and fail (EMFILE / EAGAIN) */
static int is_dry_resource_call(const char *what)
{
  if (vk_cfg.dry_mode == 1 && vk_side == 0) {
    vk_violation("C13", "no-side-effect", NULL, "options that must be rejected reached %s", what);
    vk_finish(OUT_DONE, "dry-mode stop at %s", what);
  }
  if (vk_cfg.dry_mode == 2 && vk_side == 0) {
    vk_dry_hits++;
    return 1;
  }
  return 0;
}

/* ---- memory ---- */
void *vk_malloc(size_t n)
{
  struct vk_event *e = ev_new(C_MALLOC, (long) n, 0, 0);
  int f = fault(C_MALLOC);
  if (f) { e->injected = f; errno = ENOMEM; ev_done(e, -1, ENOMEM); vk_log("    malloc(%zu) = NULL (injected)", n); return NULL; }
  void *p = malloc(n);
  heap_add(p, n);
  ev_done(e, 0, 0);
  return p;
}

void *vk_calloc(size_t a, size_t b)
{
  struct vk_event *e = ev_new(C_CALLOC, (long) a, (long) b, 0);
  int f = fault(C_CALLOC);
  if (f) { e->injected = f; errno = ENOMEM; ev_done(e, -1, ENOMEM); vk_log("    calloc(%zu,%zu) = NULL (injected)", a, b); return NULL; }
  void *p = calloc(a, b);
  heap_add(p, a * b);
  ev_done(e, 0, 0);
  return p;
}

void *vk_realloc(void *q, size_t n)
{
  struct vk_event *e = ev_new(C_REALLOC, (long) n, 0, 0);
  int f = fault(C_REALLOC);
  if (f) { e->injected = f; errno = ENOMEM; ev_done(e, -1, ENOMEM); vk_log("    realloc(%p,%zu) = NULL (injected)", q, n); return NULL; }
  if (q && SIDE_PARENT && heap_find(q) < 0) {
    vk_foreign_frees++;
    vk_log("!!  realloc of a block the library does not own: %p", q);
    void *p = malloc(n);
    heap_add(p, n);
    return p;
  }
  if (q && SIDE_PARENT) heap_del(q);
  void *p = realloc(q, n);
  if (p) heap_add(p, n);
  else if (q && SIDE_PARENT) heap_add(q, 0);
  ev_done(e, 0, 0);
  return p;
}

char *vk_strdup(const char *s)
{
  struct vk_event *e = ev_new(C_STRDUP, 0, 0, 0);
  int f = fault(C_STRDUP);
  if (f) { e->injected = f; errno = ENOMEM; ev_done(e, -1, ENOMEM); vk_log("    strdup = NULL (injected)"); return NULL; }
  char *p = strdup(s);
  heap_add(p, p ? strlen(p) + 1 : 0);
  ev_done(e, 0, 0);
  return p;
}

char *vk_strndup(const char *s, size_t n)
{
  int f = fault(C_STRDUP);
  if (f) { errno = ENOMEM; return NULL; }
  char *p = strndup(s, n);
  heap_add(p, p ? strlen(p) + 1 : 0);
  return p;
}

void vk_free(void *p)
{
  if (!p) return;
  if (!SIDE_PARENT) {
    free(p);
    return;
  }
  if (!heap_del(p)) {
    vk_foreign_frees++;
    vk_log("!!  free of a block the library does not own (or double free): %p", p);
    return; /* not executed */
  }
  free(p);
}

/* ---- descriptors ---- */
int vk_pipe(int fds[2])
{
  if (SIDE_PARENT && is_dry_resource_call("pipe()")) { errno = EMFILE; return -1; }
  if (vk_threads_on) vk_sched_point("pipe");
  struct vk_event *e = ev_new(C_PIPE, 0, 0, 0);
  int f = fault(C_PIPE);
  if (f) { e->injected = f; errno = f; ev_done(e, -1, f); return -1; }
  int r = pipe(fds);
  int er = errno;
  if (r == 0) {
    fdl_open(fds[0], C_PIPE);
    fdl_open(fds[1], C_PIPE);
    e->a0 = fds[0];
    e->a1 = fds[1];
  }
  ev_done(e, r, er);
  errno = er;
  return r;
}

int vk_pipe2(int fds[2], int flags)
{
  if (SIDE_PARENT && is_dry_resource_call("pipe2()")) { errno = EMFILE; return -1; }
  struct vk_event *e = ev_new(C_PIPE, 0, 0, flags);
  int f = fault(C_PIPE);
  if (f) { e->injected = f; errno = f; ev_done(e, -1, f); return -1; }
  int r = pipe2(fds, flags);
  int er = errno;
  if (r == 0) {
    fdl_open(fds[0], C_PIPE);
    fdl_open(fds[1], C_PIPE);
    e->a0 = fds[0];
    e->a1 = fds[1];
  }
  ev_done(e, r, er);
  errno = er;
  return r;
}

static void libstep_gate(const char *what);

int vk_close(int fd)
{
  if (vk_side == 1) {
    if (fd >= HARNESS_FD_BASE) return 0; /* never let library code close harness descriptors */
    libstep_gate("close");
    struct vk_event *e = ev_new(C_CLOSE, fd, 0, 0);
    int f = fault(C_CLOSE);
    int r = close(fd);
    int er = errno;
    if (f && r == 0) { e->injected = f; r = -1; er = f; }
    ev_done(e, r, er);
    errno = er;
    return r;
  }
  if (vk_side == 2) return close(fd);
  vk_sched_point("close");
  struct vk_event *e = ev_new(C_CLOSE, fd, 0, 0);
  if (fd < 0 || fd >= HARNESS_FD_BASE || fdl[fd].st != FD_LIB_OPEN) {
    if (fd >= 0 && fd < HARNESS_FD_BASE && fdl[fd].st == FD_LIB_CLOSED) {
      vk_double_closes++;
      vk_log("!!  double close of descriptor %d (not executed)", fd);
    } else {
      vk_foreign_closes++;
      vk_log("!!  close of descriptor %d which the library did not open (not executed)", fd);
    }
    e->injected = -9;
    ev_done(e, -1, EBADF);
    errno = EBADF;
    return -1;
  }
  int f = fault(C_CLOSE);
  int r = close(fd);
  int er = errno;
  fdl[fd].st = FD_LIB_CLOSED;
  if (f && r == 0) { e->injected = f; r = -1; er = f; } /* the descriptor is closed anyway, as on Linux */
  ev_done(e, r, er);
  errno = er;
  return r;
}

int vk_dup2(int a, int b)
{
  struct vk_event *e = ev_new(C_DUP2, a, b, 0);
  int f = fault(C_DUP2);
  if (f) { e->injected = f; errno = f; ev_done(e, -1, f); return -1; }
  if (SIDE_PARENT && is_dry_resource_call("dup2()")) { errno = EMFILE; return -1; }
  int r = dup2(a, b);
  int er = errno;
  if (r >= 0 && a != b) fdl_open(r, C_DUP2);
  ev_done(e, r, er);
  errno = er;
  return r;
}

int vk_dup3(int a, int b, int flags)
{
  struct vk_event *e = ev_new(C_DUP2, a, b, flags);
  int f = fault(C_DUP2);
  if (f) { e->injected = f; errno = f; ev_done(e, -1, f); return -1; }
  int r = dup3(a, b, flags);
  int er = errno;
  if (r >= 0) fdl_open(r, C_DUP2);
  ev_done(e, r, er);
  errno = er;
  return r;
}

int vk_dup(int a)
{
  struct vk_event *e = ev_new(C_DUP, a, 0, 0);
  int f = fault(C_DUP);
  if (f) { e->injected = f; errno = f; ev_done(e, -1, f); return -1; }
  if (SIDE_PARENT && is_dry_resource_call("dup()")) { errno = EMFILE; return -1; }
  int r = dup(a);
  int er = errno;
  if (r >= 0) fdl_open(r, C_DUP);
  ev_done(e, r, er);
  errno = er;
  return r;
}

int vk_open(const char *path, int flags, ...)
{
  mode_t mode = 0;
  if (flags & (O_CREAT | O_TMPFILE)) {
    va_list ap;
    va_start(ap, flags);
    mode = (mode_t) va_arg(ap, int);
    va_end(ap);
  }
  if (SIDE_PARENT && is_dry_resource_call("open()")) { errno = EMFILE; return -1; }
  struct vk_event *e = ev_new(C_OPEN, 0, flags, (long) mode);
  int f = fault(C_OPEN);
  if (f) { e->injected = f; errno = f; ev_done(e, -1, f); return -1; }
  int r = open(path, flags, mode);
  int er = errno;
  if (r >= 0) fdl_open(r, C_OPEN);
  vk_log("    open(\"%s\")", path);
  ev_done(e, r, er);
  errno = er;
  return r;
}

int vk_open64(const char *path, int flags, ...)
{
  mode_t mode = 0;
  if (flags & (O_CREAT | O_TMPFILE)) {
    va_list ap;
    va_start(ap, flags);
    mode = (mode_t) va_arg(ap, int);
    va_end(ap);
  }
  return vk_open(path, flags, mode);
}

int vk_openat(int dirfd, const char *path, int flags, ...)
{
  mode_t mode = 0;
  if (flags & (O_CREAT | O_TMPFILE)) {
    va_list ap;
    va_start(ap, flags);
    mode = (mode_t) va_arg(ap, int);
    va_end(ap);
  }
  if (SIDE_PARENT && is_dry_resource_call("openat()")) { errno = EMFILE; return -1; }
  struct vk_event *e = ev_new(C_OPEN, dirfd, flags, (long) mode);
  int f = fault(C_OPEN);
  if (f) { e->injected = f; errno = f; ev_done(e, -1, f); return -1; }
  int r = openat(dirfd, path, flags, mode);
  int er = errno;
  if (r >= 0) fdl_open(r, C_OPEN);
  ev_done(e, r, er);
  errno = er;
  return r;
}

int vk_fcntl(int fd, int cmd, ...)
{
  va_list ap;
  va_start(ap, cmd);
  long arg = va_arg(ap, long);
  va_end(ap);
  int has_arg = !(cmd == F_GETFD || cmd == F_GETFL);
  if (vk_threads_on) vk_sched_point("fcntl");
  struct vk_event *e = ev_new(C_FCNTL, fd, cmd, has_arg ? arg : 0);
  int f = fault(C_FCNTL);
  if (f) { e->injected = f; errno = f; ev_done(e, -1, f); return -1; }
  int r = has_arg ? fcntl(fd, cmd, arg) : fcntl(fd, cmd);
  int er = errno;
  if (r >= 0 && (cmd == F_DUPFD || cmd == F_DUPFD_CLOEXEC)) fdl_open(r, C_DUP);
  ev_done(e, r, er);
  errno = er;
  return r;
}

int vk_fileno(FILE *fp)
{
  struct vk_event *e = ev_new(C_FILENO, 0, 0, 0);
  int f = fault(C_FILENO);
  if (f) { e->injected = f; errno = f; ev_done(e, -1, f); return -1; }
  int r = fileno(fp);
  int er = errno;
  ev_done(e, r, er);
  errno = er;
  return r;
}

/* ---- I/O ---- */
ssize_t vk_read(int fd, void *buf, size_t n)
{
  if (vk_side != 0) return read(fd, buf, n);
  vk_sched_point("read");
  struct vk_event *e = ev_new(C_READ, fd, (long) n, 0);
  int f = fault(C_READ);
  if (f) { e->injected = f; errno = f; ev_done(e, -1, f); return -1; }
  if (!vk_cfg.passthru) {
    int fl = fcntl(fd, F_GETFL);
    if (fl >= 0 && !(fl & O_NONBLOCK)) {
      for (;;) {
        struct pollfd p = { fd, POLLIN, 0 };
        int pr = poll(&p, 1, 0);
        if (pr != 0) break;
        blocked(e, "read", -1);
      }
    }
  }
  ssize_t r = read(fd, buf, n);
  int er = errno;
  ev_done(e, r, er);
  errno = er;
  return r;
}

ssize_t vk_write(int fd, const void *buf, size_t n)
{
  if (vk_side != 0) return write(fd, buf, n);
  vk_sched_point("write");
  struct vk_event *e = ev_new(C_WRITE, fd, (long) n, 0);
  int f = fault(C_WRITE);
  if (f) { e->injected = f; errno = f; ev_done(e, -1, f); return -1; }
  int fl = fcntl(fd, F_GETFL);
  if (vk_cfg.passthru || fl < 0 || (fl & O_NONBLOCK)) {
    ssize_t r = write(fd, buf, n);
    int er = errno;
    ev_done(e, r, er);
    errno = er;
    return r;
  }
  /* blocking descriptor: what a blocking write does, made visible */
  size_t done = 0;
  ssize_t r = 0;
  int er = 0;
  fcntl(fd, F_SETFL, fl | O_NONBLOCK);
  for (;;) {
    r = write(fd, (const char *) buf + done, n - done);
    er = errno;
    if (r >= 0) {
      done += (size_t) r;
      if (done >= n) break;
      continue;
    }
    if (er == EAGAIN) {
      fcntl(fd, F_SETFL, fl);
      blocked(e, "write", -1);
      fcntl(fd, F_SETFL, fl | O_NONBLOCK);
      continue;
    }
    break;
  }
  fcntl(fd, F_SETFL, fl);
  if (r < 0 && done > 0) { r = (ssize_t) done; }
  else if (r >= 0) r = (ssize_t) done;
  ev_done(e, r, er);
  errno = er;
  return r;
}

int vk_poll(struct pollfd *fds, nfds_t n, int timeout)
{
  if (vk_side != 0) return poll(fds, n, timeout);
  vk_sched_point("poll");
  struct vk_event *e = ev_new(C_POLL, (long) n, timeout, 0);
  int f = fault(C_POLL);
  if (f) { e->injected = f; errno = f; ev_done(e, -1, f); return -1; }
  if (vk_cfg.passthru) {
    int r = poll(fds, n, timeout);
    int er = errno;
    ev_done(e, r, er);
    errno = er;
    return r;
  }
  int remaining = timeout;
  for (;;) {
    int r = poll(fds, n, 0);
    int er = errno;
    if (r != 0 || timeout == 0) {
      ev_done(e, r, er);
      errno = er;
      return r;
    }
    int el = blocked(e, "poll", remaining < 0 ? -1 : remaining);
    if (el == -2) {
      ev_done(e, -1, EINTR);
      errno = EINTR;
      return -1;
    }
    if (el < 0) {
      /* the OS timeout expired */
      for (nfds_t i = 0; i < n; i++) fds[i].revents = 0;
      ev_done(e, 0, 0);
      return 0;
    }
    if (remaining >= 0) remaining -= el;
  }
}

int vk_ppoll(struct pollfd *fds, nfds_t n, const struct timespec *ts, const sigset_t *ss)
{
  (void) ss;
  int t = ts ? (int) (ts->tv_sec * 1000 + (ts->tv_nsec + 999999) / 1000000) : -1;
  return vk_poll(fds, n, t);
}

/* ---- processes ---- */
static void emulated_exec(const char *file, char *const argv[]) __attribute__((noreturn));

static void libstep_gate(const char *what)
{
  /* fork mode: an observable library step on the forked side waits for the explorer */
  if (vk_side != 1 || !vk_cfg.fork_mode || vk_cfg.fork_child_first || vk_cfg.passthru) return;
  struct vc_rep r = { ST_LIBSTEP, 0 };
  (void) what;
  xsend(my_ctl, &r, sizeof r);
  struct vc_cmd go;
  if (!xrecv(my_ctl, &go, sizeof go)) _exit(0);
}

pid_t vk_fork(void)
{
  if (vk_side != 0) return fork();
  if (is_dry_resource_call("fork()")) { errno = EAGAIN; return -1; }
  if (vk_threads_on) vk_sched_point("fork");
  struct vk_event *e = ev_new(C_FORK, 0, 0, 0);
  int f = fault(C_FORK);
  if (f) { e->injected = f; errno = f; ev_done(e, -1, f); return -1; }
  if (vk_nchildren >= VK_MAX_CHILDREN) infra("too many children");
  int sv[2];
  if (socketpair(AF_UNIX, SOCK_STREAM, 0, sv) < 0) infra("socketpair: %s", strerror(errno));
  int pfd = vk_high_fd(sv[0]);
  int cfd = dup2(sv[1], CTL_CHILD_FD);
  if (cfd < 0) infra("dup2 ctl: %s", strerror(errno));
  close(sv[1]);
  struct timeval tv = { 30, 0 };
  setsockopt(pfd, SOL_SOCKET, SO_RCVTIMEO, &tv, sizeof tv);
  struct vk_child *c = &vk_children[vk_nchildren];
  memset(c, 0, sizeof *c);
  c->idx = vk_nchildren;
  c->ctl = pfd;
  for (int s = 0; s < 65; s++) c->disp[s] = 'D';
  c->expect_status = -1;
  if (next_script < n_pending_scripts) parse_script(c, pending_scripts[next_script++]);
  (void) ctl_sv;
  pid_t pid = fork();
  if (pid < 0) {
    int er = errno;
    close(pfd);
    close(cfd);
    ev_done(e, -1, er);
    errno = er;
    return -1;
  }
  if (pid == 0) {
    vk_side = 1;
    my_child_idx = vk_nchildren;
    /* the helper looks for its control socket at CTL_CHILD_FD */
    my_ctl = CTL_CHILD_FD;
    close(pfd);
    for (int i = 0; i < vk_nchildren; i++) close(vk_children[i].ctl);
    return 0;
  }
  close(cfd);
  c->pid = pid;
  c->state = CH_LIBRUN;
  vk_nchildren++;
  ev_done(e, pid, 0);
  if (vk_cfg.passthru) {
    child_next_message(c); /* still wait for hello so that scripts can be handed over */
    return pid;
  }
  /* Hold the parent until the forked side has exec'd (hello), failed (EOF), or - in fork mode -
   * reached its first observable library step. */
  child_next_message(c);
  if (vk_cfg.fork_mode && vk_cfg.fork_child_first)
    while (c->state == CH_LIBPEND) vk_child_step(c);
  return pid;
}

pid_t vk_vfork(void)
{
  return vk_fork();
}

static void emulated_exec(const char *file, char *const argv[])
{
  (void) file;
  /* what exec does to the process state that the helper can observe: close-on-exec descriptors go away.
   * Descriptors are probed up to a bound well above anything a harness opens below the harness range. */
  int bound = vk_cfg.hello_lite ? vk_cfg.vlimit + 8 : (vk_cfg.vlimit > 64 ? vk_cfg.vlimit : 64) + 32;
  for (int fd = 0; fd < bound; fd++) {
    int fl = fcntl(fd, F_GETFD);
    if (fl >= 0 && (fl & FD_CLOEXEC)) close(fd);
  }
  for (int s = 1; s < 32 && !vk_cfg.hello_lite; s++) {
    struct sigaction sa;
    if (sigaction(s, NULL, &sa) == 0 && sa.sa_handler != SIG_DFL && sa.sa_handler != SIG_IGN) signal(s, SIG_DFL);
  }
  vk_side = 2;
  vchild_run(my_ctl, IMG_EMUL | (vk_cfg.hello_lite ? 0x100 : 0) | ((bound & 0xfff) << 12), argv, vk_environ);
  _exit(0);
}

static int do_exec(const char *file, char *const argv[], int search)
{
  struct vk_event *e = ev_new(C_EXEC, 0, 0, 0);
  int f = fault(C_EXEC);
  if (f) { e->injected = f; errno = f; ev_done(e, -1, f); return -1; }
  vk_log("    [child] exec(\"%.200s\")", file);
  if (!vk_cfg.real_exec && !S->force_real_exec) {
    S->emulated_exec_used = 1;
    /* emulated exec only ever stands for the helper itself */
    struct stat sa, sb;
    if (!strchr(file, '/') || stat(file, &sa) < 0 || stat(vk_helper_path, &sb) < 0 || sa.st_dev != sb.st_dev || sa.st_ino != sb.st_ino) {
      int er = strchr(file, '/') && stat(file, &sa) < 0 ? errno : ENOENT;
      errno = er;
      ev_done(e, -1, er);
      return -1;
    }
    emulated_exec(file, argv);
  }
  environ = vk_environ;
  if (search) execvp(file, argv);
  else execv(file, argv);
  int er = errno;
  ev_done(e, -1, er);
  errno = er;
  return -1;
}

int vk_execvp(const char *file, char *const argv[]) { return do_exec(file, argv, 1); }
int vk_execv(const char *file, char *const argv[]) { return do_exec(file, argv, 0); }
int vk_execve(const char *file, char *const argv[], char *const envp[])
{
  vk_environ = (char **) envp;
  return do_exec(file, argv, 0);
}
int vk_execvpe(const char *file, char *const argv[], char *const envp[])
{
  vk_environ = (char **) envp;
  return do_exec(file, argv, 1);
}

void vk__exit(int code)
{
  if (vk_side == 0) {
    vk_violation("C14", "exit-in-parent", NULL, "the library called _exit(%d) in the calling process", code);
    vk_finish(OUT_DONE, "library called _exit in the parent");
  }
  S->child_exit_called = code + 1;
  vk_log("    [child] _exit(%d)", code);
  _exit(code);
}

void vk_exit(int code)
{
  vk__exit(code);
  _exit(code);
}

pid_t vk_waitpid(pid_t pid, int *status, int options)
{
  if (vk_side != 0) return waitpid(pid, status, options);
  vk_sched_point("waitpid");
  struct vk_event *e = ev_new(C_WAITPID, pid, options, 0);
  struct vk_child *c = pid > 0 ? vk_child_by_pid(pid) : NULL;
  if (c && c->state == CH_REAPED && c->reaps == 0) {
    /* reaped behind the library's back (injected ECHILD earlier): asking again is legitimate, the answer is ECHILD */
    ev_done(e, -1, ECHILD);
    errno = ECHILD;
    return -1;
  }
  if (!c || c->state == CH_REAPED) {
    vk_bad_waits++;
    vk_log("!!  waitpid(%d): not a live, unreaped child of this handle (not executed)", (int) pid);
    e->injected = -9;
    ev_done(e, -1, ECHILD);
    errno = ECHILD;
    return -1;
  }
  int f = fault(C_WAITPID);
  if (f == ECHILD) {
    /* ECHILD for one's own child means it was reaped behind the caller's back (SIGCHLD ignored / another waiter):
     * make that true, otherwise the answer is one the kernel cannot give */
    if (is_zombie(pid)) {
      waitpid(pid, NULL, WNOHANG);
      c->state = CH_REAPED;
    } else f = EINTR;
  }
  if (f) { e->injected = f; errno = f; ev_done(e, -1, f); return -1; }
  if (vk_cfg.passthru) {
    pid_t r = waitpid(pid, status, options);
    int er = errno;
    if (r == pid) { c->state = CH_REAPED; c->reaps++; }
    ev_done(e, r, er);
    errno = er;
    return r;
  }
  if (!(options & WNOHANG)) {
    int first = 1;
    while (!is_zombie(pid)) {
      if (first) {
        vk_reap_blocked++;
        vk_log("!!  blocking waitpid on a child that is still running");
        first = 0;
      }
      blocked(e, "waitpid", -1);
    }
  }
  int st = 0;
  pid_t r = waitpid(pid, &st, options | WNOHANG);
  int er = errno;
  if (r == pid) {
    c->state = CH_REAPED;
    c->reaps++;
    c->reap_time = S->clock_ms;
    if (status) *status = st;
  }
  ev_done(e, r, er);
  errno = er;
  return r;
}

/* raw system calls: close_range() is the one a descriptor sweep may be tempted to use. It is carried out within the virtual descriptor limit
 * (the harness's own descriptors live above it) and may be answered with ENOSYS; anything else goes to the kernel as it is. */
long vk_syscall(long nr, ...)
{
  va_list ap;
  long a[6];
  va_start(ap, nr);
  for (int i = 0; i < 6; i++) a[i] = va_arg(ap, long);
  va_end(ap);
#ifdef SYS_close_range
  if (nr == SYS_close_range) {
    struct vk_event *e = ev_new(C_CLOSE_RANGE, a[0], a[1], a[2]);
    int f = fault(C_CLOSE_RANGE);
    if (f) { e->injected = f; errno = f; ev_done(e, -1, f); return -1; }
    unsigned long first = (unsigned long) (unsigned int) a[0], last = (unsigned long) (unsigned int) a[1];
    unsigned long lim = vk_cfg.vlimit > 0 ? (unsigned long) vk_cfg.vlimit : 1024;
    for (unsigned long fd = first; fd <= last && fd < lim; fd++) {
      if (vk_side == 0) { if (fcntl((int) fd, F_GETFD) >= 0) vk_close((int) fd); }
      else close((int) fd);
    }
    ev_done(e, 0, 0);
    return 0;
  }
#endif
  return syscall(nr, a[0], a[1], a[2], a[3], a[4], a[5]);
}

/* the rest of the wait family, expressed through vk_waitpid so that the child ledger sees them (a wait for "any child" is never the library's
 * business: it has exactly one child per handle and must name it) */
pid_t vk_wait(int *status) { return vk_waitpid(-1, status, 0); }
pid_t vk_wait3(int *status, int options, void *ru) { (void) ru; return vk_waitpid(-1, status, options); }
pid_t vk_wait4(pid_t pid, int *status, int options, void *ru) { (void) ru; return vk_waitpid(pid, status, options); }
int vk_waitid(int idtype, unsigned id, void *info, int options)
{
  if (vk_side != 0) return waitid((idtype_t) idtype, (id_t) id, info, options);
  /* only the plain "reap this pid" form is translated; everything else is a wait the library has no business making */
  if (idtype == P_PID && (options & WEXITED) && !(options & WNOWAIT)) {
    int st = 0;
    pid_t r = vk_waitpid((pid_t) id, &st, options & WNOHANG);
    if (r < 0) return -1;
    siginfo_t *si = info;
    if (si) {
      memset(si, 0, sizeof *si);
      if (r > 0) {
        si->si_pid = r;
        si->si_signo = SIGCHLD;
        si->si_code = WIFEXITED(st) ? CLD_EXITED : CLD_KILLED;
        si->si_status = WIFEXITED(st) ? WEXITSTATUS(st) : WTERMSIG(st);
      }
    }
    return 0;
  }
  return (int) vk_waitpid(-1, NULL, 0) < 0 ? -1 : 0;
}
int vk_kill(pid_t pid, int sig);
int vk_killpg(int pgrp, int sig) { return vk_kill(pgrp > 0 ? -pgrp : 0, sig); }

static int deliver_signal(struct vk_child *c, int sig)
{
  int r = kill(c->pid, sig);
  int er = errno;
  if (r == 0 && vk_cfg.passthru && c->state == CH_RUNNING && (sig == SIGKILL || (c->disp[sig] == 'D' && default_action_terminates(sig))) && c->expect_status < 0)
    c->expect_status = 128 + sig;
  if (r == 0 && !vk_cfg.passthru && sig > 0 && sig < 65 && (c->state == CH_RUNNING || c->state == CH_LIBPEND)) {
    int blocked_in_child = c->have_hello && sig != SIGKILL && sig != SIGSTOP && ((c->hello.blk >> sig) & 1);
    char d = sig == SIGKILL ? 'D' : c->disp[sig];
    if (c->state == CH_LIBPEND) d = 'D', blocked_in_child = 0;
    if (blocked_in_child) {
      /* stays pending */
    } else if (d == 'D' && default_action_terminates(sig)) {
      c->expect_status = 128 + sig;
      c->ended_by = sig;
      wait_zombie(c);
    } else if (d == 'H') {
      struct vc_rep rep;
      if (!xrecv(c->ctl, &rep, sizeof rep) || rep.st != ST_SIG) infra("expected signal notification from child %d", c->idx);
      c->handled[rep.n]++;
    }
  }
  errno = er;
  return r;
}

int vk_kill(pid_t pid, int sig)
{
  if (vk_side != 0) return kill(pid, sig);
  vk_sched_point("kill");
  struct vk_event *e = ev_new(C_KILL, pid, sig, 0);
  struct vk_child *c = pid > 0 ? vk_child_by_pid(pid) : NULL;
  if (c && c->state == CH_REAPED && c->reaps == 0) {
    /* reaped behind the library's back by an injected ECHILD: the library cannot know */
    ev_done(e, -1, ESRCH);
    errno = ESRCH;
    return -1;
  }
  if (!c || c->state == CH_REAPED) {
    vk_bad_kills++;
    vk_log("!!  kill(%d,%d): not a live, unreaped child of this handle (not executed)", (int) pid, sig);
    e->injected = -9;
    ev_done(e, -1, ESRCH);
    errno = ESRCH;
    return -1;
  }
  int f = fault(C_KILL);
  if (f) { e->injected = f; errno = f; ev_done(e, -1, f); return -1; }
  if (c->nsigs < 16) {
    c->sigs[c->nsigs].sig = sig;
    c->sigs[c->nsigs].t = S->clock_ms;
    c->sigs[c->nsigs].api = vk_api_seq;
    c->sigs[c->nsigs].child_state = c->state;
    c->nsigs++;
  }
  /* Signal delivery is asynchronous: kill() returning 0 says nothing about when the child is affected. By default the
   * effect happens at once; as a scheduling deviation it is deferred and becomes the child's next step (only for a
   * running, scripted child and for one signal at a time). */
  if (!vk_cfg.passthru && vk_cfg.sched_on && c->state == CH_RUNNING && !c->pending_sig && sig > 0 && sig < 65 && budget_left(K_SCHED, vk_cfg.sched_bound) &&
      vk_choose(K_SCHED, 2, 1, "sig-later")) {
    c->pending_sig = sig;
    vk_log("    (signal %d to child %d takes effect later)", sig, c->idx);
    ev_done(e, 0, 0);
    return 0;
  }
  int r = deliver_signal(c, sig);
  int er = errno;
  ev_done(e, r, er);
  errno = er;
  return r;
}

/* ---- signals ---- */
int vk_pthread_sigmask(int how, const sigset_t *set, sigset_t *old)
{
  struct vk_event *e = ev_new(C_SIGMASK, how, set != NULL, old != NULL);
  int f = fault(C_SIGMASK);
  if (f) { e->injected = f; ev_done(e, -1, f); return f; }
  int r = pthread_sigmask(how, set, old);
  ev_done(e, r ? -1 : 0, r);
  return r;
}

int vk_sigprocmask(int how, const sigset_t *set, sigset_t *old)
{
  struct vk_event *e = ev_new(C_SIGMASK, how, set != NULL, old != NULL);
  int f = fault(C_SIGMASK);
  if (f) { e->injected = f; errno = f; ev_done(e, -1, f); return -1; }
  int r = pthread_sigmask(how, set, old);
  if (r) { errno = r; ev_done(e, -1, r); return -1; }
  ev_done(e, 0, 0);
  return 0;
}

int vk_sigaction(int sig, const struct sigaction *act, struct sigaction *old)
{
  struct vk_event *e = ev_new(C_SIGACTION, sig, 0, 0);
  int f = fault(C_SIGACTION);
  if (f) { e->injected = f; errno = f; ev_done(e, -1, f); return -1; }
  int r = sigaction(sig, act, old);
  int er = errno;
  ev_done(e, r, er);
  errno = er;
  return r;
}

sighandler_t vk_signal(int sig, sighandler_t h)
{
  return signal(sig, h);
}

int vk_sigemptyset(sigset_t *s)
{
  struct vk_event *e = ev_new(C_SIGSET, 0, 0, 0);
  int f = fault(C_SIGSET);
  if (f) { e->injected = f; errno = f; ev_done(e, -1, f); return -1; }
  int r = sigemptyset(s);
  ev_done(e, r, errno);
  return r;
}

int vk_sigfillset(sigset_t *s)
{
  struct vk_event *e = ev_new(C_SIGSET, 1, 0, 0);
  int f = fault(C_SIGSET);
  if (f) { e->injected = f; errno = f; ev_done(e, -1, f); return -1; }
  int r = sigfillset(s);
  ev_done(e, r, errno);
  return r;
}

int vk_sigaddset(sigset_t *s, int sig) { return sigaddset(s, sig); }
int vk_sigdelset(sigset_t *s, int sig) { return sigdelset(s, sig); }

/* ---- misc ---- */
int vk_chdir(const char *path)
{
  struct vk_event *e = ev_new(C_CHDIR, 0, 0, 0);
  if (vk_side == 0) {
    vk_log("!!  chdir(\"%s\") in the calling process", path);
  }
  int f = fault(C_CHDIR);
  if (f) { e->injected = f; errno = f; ev_done(e, -1, f); return -1; }
  int r = chdir(path);
  int er = errno;
  ev_done(e, r, er);
  errno = er;
  return r;
}

int vk_fchdir(int fd) { return fchdir(fd); }

char *vk_getcwd(char *buf, size_t n)
{
  struct vk_event *e = ev_new(C_GETCWD, (long) n, 0, 0);
  int f = fault(C_GETCWD);
  if (f) { e->injected = f; errno = f; ev_done(e, -1, f); return NULL; }
  char *r = getcwd(buf, n);
  int er = errno;
  ev_done(e, r ? 0 : -1, er);
  errno = er;
  return r;
}

int vk_getrlimit(int res, struct rlimit *rl)
{
  struct vk_event *e = ev_new(C_GETRLIMIT, res, 0, 0);
  int f = res == RLIMIT_NOFILE ? fault(C_GETRLIMIT) : 0;
  if (f > 0) { e->injected = f; errno = f; ev_done(e, -1, f); return -1; }
  int r = getrlimit(res, rl);
  int er = errno;
  if (r == 0 && res == RLIMIT_NOFILE) {
    if (vk_cfg.vlimit > 0) rl->rlim_cur = (rlim_t) vk_cfg.vlimit;
    if (f == -1) { rl->rlim_cur = RLIM_INFINITY; e->injected = f; }
    if (f == -2) { rl->rlim_cur = 2 * 1024 * 1024; e->injected = f; }
    e->a1 = (long) rl->rlim_cur;
  }
  ev_done(e, r, er);
  errno = er;
  return r;
}

long vk_sysconf(int name)
{
  if (name == _SC_OPEN_MAX && vk_cfg.vlimit > 0) return vk_cfg.vlimit;
  return sysconf(name);
}

int vk_getdtablesize(void)
{
  if (vk_cfg.vlimit > 0) return vk_cfg.vlimit;
  return getdtablesize();
}

int vk_clock_gettime(clockid_t id, struct timespec *ts)
{
  if (vk_cfg.passthru) return clock_gettime(id, ts);
  struct vk_event *e = ev_new(C_CLOCK, id, 0, 0);
  if (vk_side == 0 && vk_cfg.time_on && budget_left(K_TIME, vk_cfg.time_bound)) {
    int c = vk_choose(K_TIME, 3, 1, "clock");
    if (c == 1) S->clock_ms += 1;
    if (c == 2) S->clock_ms += vk_cfg.time_jump;
    e->injected = c;
  }
  ts->tv_sec = S->clock_ms / 1000;
  ts->tv_nsec = (S->clock_ms % 1000) * 1000000;
  e->t = S->clock_ms;
  ev_done(e, 0, 0);
  return 0;
}

int vk_gettimeofday(struct timeval *tv, void *tz)
{
  (void) tz;
  if (vk_cfg.passthru) return gettimeofday(tv, NULL);
  tv->tv_sec = S->clock_ms / 1000;
  tv->tv_usec = (S->clock_ms % 1000) * 1000;
  return 0;
}

time_t vk_time(time_t *t)
{
  time_t v = vk_cfg.passthru ? time(NULL) : (time_t) (S->clock_ms / 1000);
  if (t) *t = v;
  return v;
}

int vk_nanosleep(const struct timespec *req, struct timespec *rem)
{
  if (vk_cfg.passthru) return nanosleep(req, rem);
  struct vk_event *e = ev_new(C_SLEEP, 0, 0, 0);
  int ms = (int) (req->tv_sec * 1000 + req->tv_nsec / 1000000);
  S->clock_ms += ms;
  e->blocked_ms = ms;
  if (rem) rem->tv_sec = 0, rem->tv_nsec = 0;
  ev_done(e, 0, 0);
  return 0;
}

int vk_usleep(useconds_t us)
{
  struct timespec ts = { us / 1000000, (long) (us % 1000000) * 1000 };
  return vk_nanosleep(&ts, NULL);
}

unsigned vk_sleep(unsigned s)
{
  struct timespec ts = { s, 0 };
  vk_nanosleep(&ts, NULL);
  return 0;
}

/* ---- fork mode: the forked side returns into the harness and becomes a helper ---- */
void vk_forked_side_becomes_helper(void)
{
  vk_side = 2;
  vchild_run(my_ctl, IMG_FORKED, NULL, vk_environ);
  _exit(0);
}
